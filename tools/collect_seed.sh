#!/bin/bash
# usage: collect_seed.sh <worktree> <PID> <name> : save patch+demo+notes of an agent worktree, remove the worktree
WT=$1; PID=$2; NAME=$3
OUT=/verif/seeded/$NAME; mkdir -p $OUT
git -C $WT diff -- s3transfer > $OUT/patch.diff
cp $WT/demo_${PID}.py $OUT/demo.py 2>/dev/null || echo "no demo for $NAME"
cp $WT/MUTATION_NOTES.md $OUT/NOTES.md 2>/dev/null
git -C /repo worktree remove --force $WT
echo "$NAME: $(grep -c '^[-+][^-+]' $OUT/patch.diff) changed lines"
