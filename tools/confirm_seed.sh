#!/bin/bash
# usage: confirm_seed.sh <name>      (expects /verif/seeded/<name>/patch.diff and demo.py)
# Fresh scratch worktree of /repo HEAD: apply the change, run the repo's suite, run the demo with and
# without the change; result in /verif/seeded/<name>/confirm.txt; the worktree is removed afterwards.
NAME=$1
D=/verif/seeded/$NAME
WT=/tmp/confirm_wt_$NAME
git -C /repo worktree remove --force $WT 2>/dev/null
git -C /repo worktree add --detach $WT HEAD -q || exit 2
cd $WT || exit 2
{
echo "base: $(git rev-parse --short HEAD)"
git apply $D/patch.diff && echo "patch applied" || { echo "PATCH DOES NOT APPLY"; }
cp $D/demo.py demo_seed.py
echo "== suite with change"; /venv/bin/python -m pytest -q -p no:cacheprovider --timeout=900 tests/unit tests/functional 2>&1 | tail -1
echo "== demo with change"; timeout 300 /venv/bin/python demo_seed.py > demo_out.txt 2>&1; echo "exit=$?"; tail -2 demo_out.txt | cut -c1-300
git apply -R $D/patch.diff
echo "== demo without change"; timeout 300 /venv/bin/python demo_seed.py > demo_out.txt 2>&1; echo "exit=$?"; tail -2 demo_out.txt | cut -c1-300
} > $D/confirm.txt 2>&1
cd /
git -C /repo worktree remove --force $WT
echo "$NAME confirmed: $(grep -c 'exit=1' $D/confirm.txt) fail / $(grep -c 'exit=0' $D/confirm.txt) pass"
