#!/usr/bin/env python3
"""Regenerates MANIFEST.json from the table below (properties.jsonl stays untouched)."""
import json, os
ROOT = os.path.dirname(os.path.dirname(os.path.abspath(__file__)))
props = [json.loads(l)['id'] for l in open(os.path.join(ROOT, 'properties.jsonl'))]

CHECKS = {
 'C12': dict(level='model_checking', design='DESIGN.md 3/C12',
   technique='explicit-state BFS over the real SlidingWindowSemaphore/TaskSemaphore against a reference model (all op histories to a depth bound) + exhaustive preemption-bounded schedule exploration of blocking acquirers/releasers under a deterministic scheduler + end-to-end quiescence check',
   text='Every acquire/release/count history over <=3 tags and capacities 1..3 up to the depth bound is executed on the real class and compared step by step with a reference model; every schedule (within the preemption bound, forced switches free) of blocking acquirers and out-of-order releasers is executed on the real class under the deterministic scheduler; semaphores of the manager are inspected at quiescence of end-to-end runs.',
   note='Trusted: controlled Lock/Condition model (FIFO notify, barging allowed); double release of a valid token is outside the statement.'),
}

def main():
    checks = []
    for p in props:
        if p not in CHECKS:
            continue
        c = CHECKS[p]
        checks.append({
            'property_id': p,
            'quick_cmd': f'./check {p} --tier quick',
            'thorough_cmd': f'./check {p} --tier thorough',
            'evidence_file': f'evidence/{p}.json',
            'replay_cmd_template': './check replay {path}',
            'engine': 'vt',
            'level_claimed': {'category': c['level'], 'text': c['text'], 'design_ref': c['design']},
            'level_note': c['note'],
            'technique': c['technique'],
        })
    m = {
     'version': 1,
     'setup_cmd': '/venv/bin/python -m compileall -q vt >/dev/null && /venv/bin/python -m vt.selftest',
     'hooks': {'guard': 'S3TRANSFER_VERIF',
               'enable': 'no source hooks: checks import /repo\'s working tree (editable install in /venv) and rebind module-level names (s3transfer.<mod>.threading, ChunksizeAdjuster) / constructor seams (executor_cls, osutil, time_utils) from the harness; the guard name is reserved and unused',
               'baseline_off_cmd': 'cd /repo && /venv/bin/python -m pytest -ra -q -p no:cacheprovider --timeout=900 --continue-on-collection-errors tests/unit tests/functional',
               'source_commits': [], 'add_only': True},
     'engines': [
        {'name': 'detsched', 'path': 'vt/detsched.py', 'serves_properties': props, 'kind_free_text': 'deterministic scheduler for real threads + controlled primitives + DetExecutor; stateless deviation-bounded exploration (vt/explore.py)'},
        {'name': 'bfs', 'path': 'vt/bfs.py', 'serves_properties': ['C12', 'C16', 'C17', 'C09'], 'kind_free_text': 'explicit-state BFS over real objects with reference model'},
     ],
     'checks': checks,
     'not_applicable': [{'property_id': p, 'reason': 'check not built yet (build in progress; see DESIGN.md section 3)'} for p in props if p not in CHECKS],
     'notes': 'All checks explore the implementation itself (no TLA+/Promela model). See DESIGN.md.',
    }
    json.dump(m, open(os.path.join(ROOT, 'MANIFEST.json'), 'w'), indent=1)
    print('checks:', [c['property_id'] for c in checks])

main()
