#!/usr/bin/env python3
"""Regenerates MANIFEST.json from the table below (properties.jsonl stays untouched)."""
import json, os
ROOT = os.path.dirname(os.path.dirname(os.path.abspath(__file__)))
props = [json.loads(l)['id'] for l in open(os.path.join(ROOT, 'properties.jsonl'))]

CHECKS = {
 'C12': dict(level='model_checking', design='DESIGN.md 3/C12',
   technique='explicit-state BFS over the real SlidingWindowSemaphore/TaskSemaphore against a reference model (all op histories to a depth bound) + exhaustive preemption-bounded schedule exploration of blocking acquirers/releasers under a deterministic scheduler + end-to-end quiescence check',
   text='Every acquire/release/count history over <=3 tags and capacities 1..3 up to the depth bound is executed on the real class and compared step by step with a reference model; every schedule (within the preemption bound, forced switches free) of blocking acquirers and out-of-order releasers is executed on the real class under the deterministic scheduler; semaphores of the manager are inspected at quiescence of end-to-end runs.',
   note='Trusted: controlled Lock/Condition model (FIFO notify, barging allowed); double release of a valid token is outside the statement.'),
}

MGR_NOTE = 'Trusted base: deterministic scheduler + DetExecutor model of ThreadPoolExecutor (FIFO queue, lazy workers, waiters released before done-callbacks), FakeS3 + fake client validating every call with botocore\'s ParamValidator against the installed S3 model, upload-body protocol recorded from real botocore, FaultyOSUtils over a real scratch directory. Bounds: small sizes (<=13 bytes), deviation bound stated in the evidence.'
def mgr(level, design, text, technique=None):
    return dict(level=level, design=design, text=text, note=MGR_NOTE,
                technique=technique or 'stateless exhaustive exploration of the real TransferManager under a deterministic scheduler: all thread schedules and environment answers (faults, short reads, retries, cancel points) within a deviation bound, plus exhaustive sequential enumeration of small input/config domains with the inline executor; oracles on the execution trace')
CHECKS.update({
 'C01': mgr('model_checking', 'DESIGN.md 3/C01', 'All uploads/copies over source kinds x sizes 0..13 x thresholds x chunk sizes x part limits are executed and the object assembled by the fake S3 compared with the source; every client-level body retry cut point (both botocore body protocols); all schedules of 3-part transfers within the preemption bound.'),
 'C02': mgr('model_checking', 'DESIGN.md 3/C02', 'All downloads over destination kinds x sizes x thresholds x chunk/io sizes x short-read patterns; every placement of up to 2-3 retryable stream faults combined with short reads; all completion orders of ranged parts within the bound; destination bytes compared with the object.'),
 'C03': mgr('fault_enumeration', 'DESIGN.md 3/C03', 'One fault (and every pair) at every S3 call (before/after effect), source read, destination open/seek/write/close/rename, stream read and user callback of every transfer type/mode; result() must raise one of the injected failures; also under schedules with concurrency 2.'),
 'C04': mgr('model_checking', 'DESIGN.md 3/C04', 'All 2^7 settings of the seven limits in {1,2} at deviation bound 0 (every non-preemptive schedule), all-ones/all-twos at bound 1-2, single faults, cancel and shutdown(cancel) at every scheduling point, re-entrant subscribers on every outcome path; the scheduler reports deadlock (no enabled thread) and livelock (step horizon).'),
 'C05': mgr('model_checking', 'DESIGN.md 3/C05', 'Every fault position and cancellation point of multipart uploads and copies (3 source kinds), sequentially and under schedules with concurrency 2-3; oracle on the fake S3 multipart log (exactly one of complete/abort, ordering of abort vs other requests).'),
 'C06': mgr('model_checking', 'DESIGN.md 3/C06', 'Path downloads (single/ranged, destination absent/pre-existing): the destination path and directory are inspected at every scheduling point of every explored execution (each a crash point) under every single/pair of faults and every cancellation point.'),
 'C07': mgr('model_checking', 'DESIGN.md 3/C07', 'future.cancel(), shutdown(cancel=True,cancel_msg), with-block exceptions and Ctrl-C at blocking waits injected at every scheduling point of every transfer type; outcome type/message, zero requests for unstarted transfers, entry point returns.'),
 'C08': mgr('model_checking', 'DESIGN.md 3/C08', 'Two recording subscribers (first on_done raises) on every transfer type under success, every fault position and cancel at every point (including done announced from two threads); counts, ordering vs S3 requests, non-blocking result() inside on_done.'),
 'C09': mgr('model_checking', 'DESIGN.md 3/C09', 'Progress values summed for every successful execution over body rewinds at every cut point (both body protocols), retryable stream faults at every read, all small sizes; running sum within [0,size].'),
 'C10': mgr('model_checking', 'DESIGN.md 3/C10', '2-3 concurrent mixed transfers under limit assignments in which exchangeable limits differ; in-flight requests, queue occupancy per stage, write exclusivity and order evaluated over every explored execution; maxima observed are reported.'),
 'C11': mgr('model_checking', 'DESIGN.md 3/C11', 'Stream uploads and non-seekable downloads (1-2 concurrent) under small chunk/window/io-queue limits; bytes buffered and window span evaluated over every explored execution.'),
 'C16': dict(level='model_checking', design='DESIGN.md 3/C16', note='Trusted: parts are disjoint and attempts start at the part\'s first byte (what GetObjectTask does).',
   technique='explicit-state BFS over the real DeferQueue for every delivery history (chunks of any size, restarts, interleaved parts) to a length bound + end-to-end manager runs under stream faults',
   text='Every delivery history up to the bound is replayed on the real DeferQueue; released writes must be contiguous, in order, each byte once, nothing withheld once contiguous; end-to-end non-seekable downloads under C02\'s fault sequences.'),
 'C17': dict(level='model_checking', design='DESIGN.md 3/C17', note='"moves forward" read as: done states are absorbing. Shared fields are scheduling points in the interleaving part.',
   technique='explicit-state BFS over the real TransferCoordinator/TransferFuture against a reference state machine + exhaustive schedule exploration of 2-3 single-operation threads (linearizability against sequential orders)',
   text='All sequences of 13 public operations to the depth bound compared with a reference machine after every step; every schedule within the bound of 2-3 concurrent operations must end in the state of some sequential order; done() never regresses.'),
 'C18': mgr('model_checking', 'DESIGN.md 3/C18', '2-3 transfers of different types on one manager, one failing (each fault site) or cancelled, followed by shutdown / with-exit / a fresh transfer; nothing happens after shutdown returns, bystanders succeed.'),
})

CHECKS.update({
 'C14': dict(level='exploration', design='DESIGN.md 3/C14', note='Exhaustive on the stated finite domains; real scale only at the explicit boundary set. For unknown-length streams only tiling and part sizes are checked.',
   technique='exhaustive enumeration of (size, threshold, chunk) on a scaled domain through the real submission tasks of every front-end with a recording client + exhaustive adjuster grid + explicit real-scale boundary set (plan-only mode, integer oracle)',
   text='Every size 0..40 x threshold 1..12 x chunk 1..12 (quick: a sub-grid) for download/copy/upload (path, seekable, non-seekable), legacy S3Transfer and the process-pool submitter: ranges parsed from the issued requests must tile [0,size) with part numbers 1..n and multipart iff size >= threshold; ChunksizeAdjuster exhaustively on scaled limits; at real scale k*chunk-1/+0/+1 boundaries, 10,000-part and 5 MiB/5 GiB/5 TiB limits through the real upload/copy submission tasks without moving bytes.'),
 'C15': dict(level='exploration', design='DESIGN.md 3/C15', note='Expectation table written by hand from the statement and the installed botocore S3 model; at most one full-object checksum per case.',
   technique='exhaustive enumeration of (front-end, method, mode, size known?, checksum-calculation setting, extra_args) cases executed on the real code; every call validated by botocore ParamValidator and compared with an expectation table derived from the S3 model',
   text='Every allowed argument as a singleton, all at once, every subset of the checksum family and a disallowed name, for every transfer method/mode of TransferManager, legacy S3Transfer and the process-pool submitter; each operation must receive exactly the arguments its input shape has, unmodified, including the abort cleanup.'),
})

CHECKS.update({
 'C13': dict(level='model_checking', design='DESIGN.md 3/C13', note='Virtual clock: time advances only when all threads are blocked. Burst allowance B(n)=n*(2*threshold+max_read). Thresholds scaled (4 bytes, 4 B/s). n=4..8 only with identical saturated scripts.',
   technique='exhaustive schedule exploration (deterministic scheduler, virtual clock) of n stream threads running (think, read) scripts against the real LeakyBucket/BandwidthLimitedStream, with abandonment and late wake-ups as environment deviations; plus manager wiring runs',
   text='For 1-3 streams (and 4-8 identical saturated ones) every arrival order in virtual time, every preemption within the bound, abandonment at every wait and late wake-ups: every sleep is bounded by what the limit needs for live waiters plus own, one wait per read, failed transfers raise instead of waiting, bytes per interval within 1.25*m*T+B (m*T+B saturated), sub-limit demand never delayed; upload and download paths of a manager with max_bandwidth are throttled by one bucket.'),
 'C19': dict(level='model_checking', design='DESIGN.md 3/C19', note='The cross-process protocol is replayed in-process (threads, DetQueue, in-process monitor): pickling, proxy round trips, real signals and process death are not modelled.',
   technique='stateless exhaustive exploration under a deterministic scheduler of the real ProcessPoolDownloader/GetObjectSubmitter/GetObjectWorker/TransferMonitor objects wired in-process (processes as controlled threads), with faults, cancel and Ctrl-C injections',
   text='1-3 workers, 1-2 downloads of 1-4 jobs; every schedule within the deviation budget of user thread, submitter, workers and a cancelling thread; single faults in HeadObject/GetObject/stream/allocate/rename; at the step done is notified all queued jobs are accounted for, the file is complete or the temp file is gone; shutdown returns only after all downloads are done; Ctrl-C in the with-block cancels.'),
 'C20': dict(level='model_checking', design='DESIGN.md 3/C20', note='awscrt is not installed: stub S3Client (finished_future completed first, then on_done, one event-loop thread) - trusted, cannot be validated against the real CRT here. Permits scaled 128 -> 2.',
   technique='stateless exhaustive exploration under a deterministic scheduler of the real CRTTransferManager python layer against a stub CRT client whose completion order and outcomes are explorer choices',
   text='Every sequence of 3 (thorough: 4) submissions x construction outcome (ok / serializer raises / make_request raises / on_queued raises) x shutdown(cancel), completions in every order with success/error/cancel: semaphore never above its initial value and back to it at quiescence, on_done subscribers before the done event, shutdown after all done-callbacks, temp file renamed or removed.'),
})

def main():
    checks = []
    for p in props:
        if p not in CHECKS:
            continue
        c = CHECKS[p]
        checks.append({
            'property_id': p,
            'quick_cmd': f'./check {p} --tier quick',
            'thorough_cmd': f'./check {p} --tier thorough',
            'evidence_file': f'evidence/{p}.json',
            'replay_cmd_template': './check replay {path}',
            'engine': 'vt',
            'level_claimed': {'category': c['level'], 'text': c['text'], 'design_ref': c['design']},
            'level_note': c['note'],
            'technique': c['technique'],
        })
    m = {
     'version': 1,
     'setup_cmd': '/venv/bin/python -m compileall -q vt >/dev/null && /venv/bin/python -m vt.selftest',
     'hooks': {'guard': 'S3TRANSFER_VERIF',
               'enable': 'no source hooks: checks import /repo\'s working tree (editable install in /venv) and rebind module-level names (s3transfer.<mod>.threading, ChunksizeAdjuster) / constructor seams (executor_cls, osutil, time_utils) from the harness; the guard name is reserved and unused',
               'baseline_off_cmd': 'cd /repo && /venv/bin/python -m pytest -ra -q -p no:cacheprovider --timeout=900 --continue-on-collection-errors tests/unit tests/functional',
               'source_commits': [], 'add_only': True},
     'engines': [
        {'name': 'detsched', 'path': 'vt/detsched.py', 'serves_properties': props, 'kind_free_text': 'deterministic scheduler for real threads + controlled primitives + DetExecutor; stateless deviation-bounded exploration (vt/explore.py)'},
        {'name': 'bfs', 'path': 'vt/bfs.py', 'serves_properties': ['C12', 'C16', 'C17'], 'kind_free_text': 'explicit-state BFS over real objects with reference model'},
     ],
     'checks': checks,
     'not_applicable': [{'property_id': p, 'reason': 'check not built yet (build in progress; see DESIGN.md section 3)'} for p in props if p not in CHECKS],
     'notes': 'All checks explore the implementation itself (no TLA+/Promela model). See DESIGN.md.',
    }
    json.dump(m, open(os.path.join(ROOT, 'MANIFEST.json'), 'w'), indent=1)
    print('checks:', [c['property_id'] for c in checks])

main()
