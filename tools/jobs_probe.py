import sys, time, faulthandler
sys.path.insert(0,'/verif')
from vt.props import catalog, common
from vt import explore
prop=sys.argv[1]; tier=sys.argv[2] if len(sys.argv)>2 else 'quick'
jobs=catalog.jobs_for(prop,tier,0)
import os
CAP=int(os.environ.get("PROBE_CAP","0"))
if CAP:
    for j in jobs: j["max_execs"]=min(j.get("max_execs") or CAP, CAP)
print(len(jobs),'jobs')
t0=time.time()
def run(j):
    t=time.time(); r=common.explore_job(j); return (time.time()-t, j['name'], r['stats'].to_dict(), r['violations'][:2])
res=explore.run_jobs(run, jobs)
tot=0
sigs={}
for dt,name,st,viol in res:
    tot+=st['executions']
    flag = ' CAP' if st['caps_hit'] else ''
    if dt>3 or viol or flag: print(f'{dt:6.1f}s {name}: execs={st["executions"]} distinct={st["distinct_outcomes"]} outcomes={st["outcomes"]}{flag}')
    for v in viol:
        if v['sig'] not in sigs:
            sigs[v['sig']]=v
            print('    VIOL', v['sig'], v['msg'][:700])
print('total execs',tot,'wall',round(time.time()-t0,1), 'violation sigs', list(sigs))
