#!/bin/bash
# usage: run_all.sh <tier> [props...]
TIER=${1:-quick}; shift
PROPS=${@:-$(python3 -c "import json;print(' '.join(c['property_id'] for c in json.load(open('/verif/MANIFEST.json'))['checks']))")}
cd /verif
for p in $PROPS; do
  s=$(date +%s); out=$(./check $p --tier $TIER 2>&1); rc=$?; e=$(date +%s)
  echo "$p rc=$rc $((e-s))s :: $(echo "$out" | grep -E 'VIOLATION|KNOWN|HARNESS' | head -3 | tr '\n' ' ') $(echo "$out" | tail -1 | cut -c1-160)"
done
