#!/usr/bin/env python3
"""Run checks against seeded changes in scratch worktrees (parallel).
usage: seed_matrix.py <tier> [seed[:prop,prop] ...]   (default: every seed vs the property in its name)
Writes /verif/seeded/<name>/trial_<tier>.json and prints a table."""
import json, os, subprocess, sys, shutil, tempfile, concurrent.futures as cf
ROOT='/verif'
def trial(args):
    name, props, tier = args
    wt=f'/tmp/trial_wt_{name}'
    subprocess.run(['git','-C','/repo','worktree','remove','--force',wt],capture_output=True)
    r=subprocess.run(['git','-C','/repo','worktree','add','--detach',wt,'HEAD','-q'],capture_output=True,text=True)
    if r.returncode: return name,{'error':r.stderr}
    res={}
    try:
        r=subprocess.run(['git','-C',wt,'apply',f'{ROOT}/seeded/{name}/patch.diff'],capture_output=True,text=True)
        if r.returncode: return name,{'error':'patch does not apply: '+r.stderr[:200]}
        out=tempfile.mkdtemp(prefix='trial_out_')
        for p in props:
            env=dict(os.environ, VERIF_REPO=wt, VERIF_OUT=out, VERIF_NPROC=os.environ.get('TRIAL_NPROC','4'))
            import time; t=time.time()
            r=subprocess.run([f'{ROOT}/check',p,'--tier',tier],capture_output=True,text=True,env=env,cwd=ROOT)
            lines=r.stdout.splitlines()
            sig=''
            for i,l in enumerate(lines):
                if l.startswith('VIOLATION') and i+1<len(lines): sig=lines[i+1].strip()[:260]; break
            if r.returncode==2: sig='HARNESS: '+(r.stdout[-300:]+r.stderr[-300:]).replace('\n',' ')
            res[p]={'rc':r.returncode,'first':sig,'wall':round(time.time()-t,1)}
        shutil.rmtree(out,ignore_errors=True)
    finally:
        subprocess.run(['git','-C','/repo','worktree','remove','--force',wt],capture_output=True)
    return name,res
def main():
    tier=sys.argv[1]
    items=[]
    args=sys.argv[2:] or sorted(d for d in os.listdir(f'{ROOT}/seeded') if os.path.isdir(f'{ROOT}/seeded/{d}'))
    for a in args:
        if ':' in a: n,ps=a.split(':'); ps=ps.split(',')
        else: n=a; ps=[a.split('_')[0]]
        items.append((n,ps,tier))
    with cf.ThreadPoolExecutor(int(os.environ.get('TRIAL_PAR','4'))) as ex:
        for name,res in ex.map(trial,items):
            json.dump(res,open(f'{ROOT}/seeded/{name}/trial_{tier}.json','w'),indent=1)
            for p,r in res.items():
                if p=='error': print(f'{name}: ERROR {r}'); continue
                print(f"{name:8s} {p} rc={r['rc']} {r['wall']}s {'CAUGHT' if r['rc']==1 else ('MISSED' if r['rc']==0 else 'ERR')}: {r['first'][:200]}")
main()
