#!/usr/bin/env python3
"""usage: seed_prompt.py <PID> <wave> <focus text>  -> /tmp/agent_<PID>_<wave>.txt and a fresh worktree /tmp/wt_<PID>_<wave>
The prompt carries only the property text (never anything from /verif) plus the places earlier seeds touched."""
import json, os, re, subprocess, sys
pid, wave, focus = sys.argv[1], sys.argv[2], sys.argv[3]
prop = next(json.loads(l) for l in open('/verif/properties.jsonl') if json.loads(l)['id'] == pid)
wt = f'/tmp/wt_{pid}_{wave}'
subprocess.run(['git', '-C', '/repo', 'worktree', 'remove', '--force', wt], capture_output=True)
subprocess.run(['git', '-C', '/repo', 'worktree', 'add', '--detach', wt, 'HEAD', '-q'], check=True)
used = []
for d in sorted(os.listdir('/verif/seeded')):
    if d.startswith(pid + '_') and os.path.exists(f'/verif/seeded/{d}/patch.diff'):
        txt = open(f'/verif/seeded/{d}/patch.diff').read()
        files = re.findall(r'^\+\+\+ b/(\S+)', txt, re.M)
        ctx = sorted(set(m.strip() for m in re.findall(r'^@@.*@@ (.*)$', txt, re.M)))
        used.append(f"{', '.join(files)} ({'; '.join(ctx)[:160]})")
T = f"""You are helping evaluate a verification harness for the Python library boto/s3transfer (the S3 transfer manager used by boto3). Your job: produce ONE realistic, subtle code change (a "seeded defect") to the library that BREAKS the semantic property quoted below, while the library still imports fine and the repository's existing unit+functional test suite still passes.

Your private scratch git worktree of the repository is at: {wt}
Work ONLY inside that directory (never touch /repo or /verif; do not look at /verif). Python to use: /venv/bin/python. Run everything with the worktree as the current directory so that `import s3transfer` resolves to the worktree copy (verify with: cd {wt} && /venv/bin/python -c "import s3transfer; print(s3transfer.__file__)").

THE PROPERTY TO BREAK
---------------------
{pid}: {prop['title']}

STATEMENT: {prop['statement']}

QUANTIFIED OVER: {prop['quantifier']['text']}

---------------------

Requirements for the change:
1. Edit only files under {wt}/s3transfer/ (library source, not tests). Keep it small (typically 1-15 changed lines), plausible as something a maintainer could write by mistake during a refactor or "optimisation" (wrong order of two statements, an off-by-one in offset/cursor arithmetic, a check moved outside a lock, a cleanup registered too late/too early, a callback dropped on one path, a wrong variable reused, a condition slightly too weak/strong, two cooperating sites that each look fine alone). Do NOT make changes that ordinary use would expose at once (e.g. every transfer fails); it must need something specific to manifest (a particular interleaving, fault position, input shape, configuration relation or operation sequence).
2. The existing suite must still pass with your change: run `cd {wt} && /venv/bin/python -m pytest -q -p no:cacheprovider -x --timeout=900 tests/unit tests/functional` (takes ~45 s, maybe a few minutes when the machine is busy; integration tests need network and are not run). If a test fails, pick another change - do not edit tests.
3. Write a demonstration {wt}/demo_{pid}.py: a self-contained script (may use unittest.mock, threading, fake clients / botocore Stubber, temp dirs; no network) that exits 0 and prints "PROPERTY HOLDS" on the ORIGINAL code and exits 1 and prints "PROPERTY VIOLATED: <what>" with your change applied. It must be deterministic (force the needed interleaving with events/barriers or hooks rather than sleeping and hoping). Confirm both behaviours yourself: run it with your change, then `git diff -- s3transfer > /tmp/x_{pid}_{wave}.diff; git checkout -- s3transfer` and run it on the original, then re-apply with `git apply /tmp/x_{pid}_{wave}.diff` (do not use git stash: the stash is shared with other worktrees).
4. Leave your change applied in the worktree (uncommitted), plus the demo file. Also write {wt}/MUTATION_NOTES.md: which file/lines changed, why it breaks the property, exactly what it needs in order to manifest (interleaving / fault position / input / sequence), and the commands you ran with their outcomes.

FOCUS for this round - aim your defect at: {focus}

IMPORTANT: earlier contributors already placed defects at the following places (file (function context)); yours must be a DIFFERENT defect in a different place or mechanism, not a variant of these:
{chr(10).join('- ' + u for u in used) or '- (none yet)'}

Final answer: a short report with the `git diff` of your change, what it needs to manifest, and the observed outputs of the test suite and of the demo on both versions. If after serious effort you cannot find a change that keeps the suite green, say so honestly and describe the best candidate.
"""
open(f'/tmp/agent_{pid}_{wave}.txt', 'w').write(T)
print(f'/tmp/agent_{pid}_{wave}.txt', len(used), 'earlier seeds')
