#!/bin/bash
# usage: try_seed.sh <name> <tier> <prop> [<prop>...]  : apply seeded change to /repo, run checks, revert
NAME=$1; TIER=$2; shift; shift
cd /repo && git apply /verif/seeded/$NAME/patch.diff || { echo "patch does not apply"; exit 2; }
cd /verif
# evidence and replays of a run against a seeded tree must not land in /verif
export VERIF_OUT=$(mktemp -d /dev/shm/tryout.XXXXXX)
for p in "$@"; do
  out=$(./check $p --tier $TIER 2>&1); rc=$?
  echo "[$NAME] $p rc=$rc :: $(echo "$out" | grep -E 'VIOLATION|HARNESS' | head -2 | tr '\n' ' ') $(echo "$out" | grep -A1 VIOLATION | grep -v VIOLATION | head -1 | cut -c1-250)"
done
cd /repo && git checkout -- . 
rm -rf "$VERIF_OUT"
