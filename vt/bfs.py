"""Explicit-state breadth-first search over real objects.

A state is the operation history that reaches it: live objects do not copy, so
every expansion builds a fresh real object and replays the history.  `canon`
extracts the property-relevant state for de-duplication; the reference model
runs alongside and is compared after every step.
"""
import collections
import time


class BfsResult:
    def __init__(self):
        self.states = 0
        self.transitions = 0
        self.max_depth = 0
        self.violations = []      # dict(sig, msg, history)
        self.exhausted = False    # frontier emptied before the depth bound
        self.depth_completed = 0
        self.samples = []
        self.distinct_obs = set()
        self.caps_hit = []
        self.replays = 0
        self.hit_depth_bound = False


def bfs(make, ops_of, step, canon, max_depth, max_states=None, max_violations=5,
        deadline=None):
    """
    make()                    -> fresh (impl, model) pair
    ops_of(impl, model)       -> list of op descriptors (hashable / JSON-able) enabled in this state
    step(impl, model, op)     -> (obs, errors) applies op to both; obs is a hashable
                                 observation, errors a list of (sig, msg)
    canon(impl, model)        -> hashable canonical state
    """
    r = BfsResult()

    def build(hist):
        impl, model = make()
        for op in hist:
            step(impl, model, op)
        r.replays += 1
        return impl, model

    impl, model = make()
    seen = {canon(impl, model)}
    frontier = collections.deque([()])
    r.states = 1
    depth_of_last = 0
    while frontier:
        hist = frontier.popleft()
        d = len(hist)
        if d > depth_of_last:
            r.depth_completed = d - 0   # all states of depth < d expanded
            depth_of_last = d
        if d >= max_depth:
            r.hit_depth_bound = True
            continue
        if deadline is not None and time.time() > deadline:
            r.caps_hit.append(f'deadline at depth {d}')
            break
        impl, model = build(hist)
        ops = ops_of(impl, model)
        for op in ops:
            impl2, model2 = build(hist)
            obs, errors = step(impl2, model2, op)
            r.transitions += 1
            r.distinct_obs.add((op[0], obs) if isinstance(op, tuple) else (op, obs))
            if errors:
                for sig, msg in errors:
                    r.violations.append({'sig': sig, 'msg': msg,
                                         'history': list(hist) + [op]})
                if len(r.violations) >= max_violations:
                    r.caps_hit.append('stopped at first violations')
                    return r
                continue      # do not explore beyond a violating state
            k = canon(impl2, model2)
            if k not in seen:
                seen.add(k)
                r.states += 1
                if max_states is not None and r.states > max_states:
                    r.caps_hit.append(f'max_states={max_states}')
                    return r
                nh = hist + (op,)
                frontier.append(nh)
                if len(nh) > r.max_depth:
                    r.max_depth = len(nh)
                if len(r.samples) < 3 and len(nh) >= min(4, max_depth):
                    r.samples.append(list(nh))
    else:
        r.exhausted = not r.hit_depth_bound
    if not r.caps_hit:
        r.depth_completed = max_depth if r.hit_depth_bound else r.max_depth
    return r


def snapshot(obj, depth=3):
    """Normalised picture of an object's whole instance state, for de-duplicating BFS states:
    two histories may be merged only if the implementation state agrees, not just the reference
    model (a hidden field that differs means different futures).  Containers are walked,
    callables / locks / unknown objects are reduced to their type (and size / flag where they
    have one), exceptions to type + text."""
    return _snap(obj, depth, True)


def _snap(v, depth, top=False):
    if isinstance(v, (int, float, str, bytes, type(None), bool)):
        return v
    if isinstance(v, BaseException):
        return (type(v).__name__, str(v))
    if isinstance(v, dict):
        return ('dict', tuple(sorted(((_snap(k, depth - 1), _snap(x, depth - 1)) for k, x in v.items()), key=repr)))
    if isinstance(v, (list, tuple)):
        return (type(v).__name__, tuple(_snap(x, depth - 1) for x in v))
    if isinstance(v, (set, frozenset)):
        return ('set', tuple(sorted((_snap(x, depth - 1) for x in v), key=repr)))
    d = getattr(v, '__dict__', None)
    name = type(v).__name__
    if d is not None and depth > 0 and (top or name in _WALK):
        return (name, tuple((k, _snap(x, depth - 1)) for k, x in sorted(d.items()) if not k.startswith('_vt_')))
    # synchronisation objects of the scheduler: their observable value
    for attr in ('_value', '_flag', '_locked', '_owner'):
        if hasattr(v, attr):
            x = getattr(v, attr)
            return (name, attr, x if isinstance(x, (int, bool, type(None))) else (x is not None))
    try:
        return (name, len(v))
    except TypeError:
        return (name,)


_WALK = {'FunctionContainer', 'TaskSemaphore', 'SlidingWindowSemaphore', 'TransferMeta', 'CallArgs'}
