"""Deterministic scheduler for real Python threads + controlled primitives.

One execution = one `Sched`.  Controlled threads are real OS threads that run
strictly one at a time: each owns a baton (`_thread.allocate_lock`), parks on it
at every *scheduling point* and is released by whichever thread takes the
scheduling decision.  All nondeterminism (which thread runs next, environment
answers obtained through `choose`) is resolved from a *choice sequence*: a
prefix given by the explorer followed by the default choice 0.

Two modes:
  * threaded  (`Sched.run(main)`)      - `main` runs in controlled thread 0 and
    may spawn more (executors, injectors).
  * inline    (`Sched.run_inline(main)`) - no thread switching; `choose` still
    works, a blocking operation that is not enabled raises `SeqDeadlock`.

Nothing in here imports s3transfer.
"""
import _thread
import threading as _real_threading
import hashlib

NEW, READY, DONE = 0, 1, 2


class AbortExecution(BaseException):
    """Raised inside controlled threads when the execution is being torn down."""


class SeqDeadlock(Exception):
    """inline mode: an operation would block forever (there is nobody else)."""


class ReplayDivergence(Exception):
    """A choice prefix did not fit the execution (harness nondeterminism)."""


class HarnessError(Exception):
    pass


class WouldBlock(Exception):
    """An operation inside `Sched.nonblocking()` was not enabled."""


class _NonBlocking:
    def __init__(self, s):
        self.s = s

    def __enter__(self):
        s = self.s
        self.t = s.current
        if self.t is None:
            s._nonblock += 1
        else:
            self.t.nonblock += 1
        return self

    def __exit__(self, *a):
        if self.t is None:
            self.s._nonblock -= 1
        else:
            self.t.nonblock -= 1
        return False


class Decision:
    __slots__ = ('n', 'chosen', 'kind', 'running_enabled', 'label', 'step', 'inj')

    def __init__(self, n, chosen, kind, running_enabled, label, step, inj=()):
        self.inj = inj              # indices of options that start an injection
        self.n = n
        self.chosen = chosen
        self.kind = kind            # 'sched' | 'env'
        self.running_enabled = running_enabled
        self.label = label
        self.step = step

    def as_tuple(self):
        return (self.n, self.chosen, self.kind, self.running_enabled, self.label, self.inj)


class CThread:
    __slots__ = ('id', 'name', 'baton', 'state', 'op_kind', 'op_res',
                 'op_enabled', 'idle', 'fn', 'real', 'interrupt',
                 'interruptible', 'exc', 'role', 'wake', 'result', 'prio', 'nonblock')

    def __init__(self, tid, name, fn, role=None, prio=0):
        self.id = tid
        self.name = name
        self.fn = fn
        self.baton = _thread.allocate_lock()
        self.baton.acquire()
        self.state = NEW
        self.op_kind = 'start'
        self.op_res = None
        self.op_enabled = None
        self.idle = False
        self.real = None
        self.interrupt = False
        self.interruptible = False
        self.exc = None
        self.role = role
        self.wake = None
        self.result = None
        self.prio = prio
        self.nonblock = 0

    def __repr__(self):
        return f'<T{self.id}:{self.name}>'


_ACTIVE = None


def _prio_key(t):
    return (t.prio, t.id)


def active():
    return _ACTIVE


class Sched:
    def __init__(self, prefix=(), horizon=20000, name='', record_points=False):
        self.prefix = list(prefix)
        self.pos = 0
        self.decisions = []
        self.threads = []
        self.current = None
        self.step = 0
        self.horizon = horizon
        self.aborting = False
        self.outcome = None          # 'ok' | 'deadlock' | 'livelock' | 'crash'
        self.outcome_detail = None
        self.log = []
        self.now = 0.0               # virtual clock
        self.inline = False
        self.name = name
        self._done = None
        self._next_obj_id = 0
        self.on_point = None         # optional callback(sched) at every point
        self.points = 0
        self.max_threads = 0
        self.record_points = record_points
        self.point_log = []
        self.user = {}               # free slot for harness data
        self._nonblock = 0
        self.time_preempt = False    # offer "time passes while a runnable thread is descheduled"
        self.nopreempt = frozenset()   # op kinds that are steps but no decisions

    def nonblocking(self):
        return _NonBlocking(self)

    # ------------------------------------------------------------------ ids
    def new_id(self, prefix='o'):
        self._next_obj_id += 1
        return f'{prefix}{self._next_obj_id}'

    # ------------------------------------------------------------------ log
    def emit(self, kind, /, **payload):
        if self.aborting:
            return
        cur = self.current
        self.log.append((self.step, cur.id if cur is not None else -1, kind, payload, self.now))

    # ------------------------------------------------------------- decisions
    def _decide(self, n, kind, running_enabled, label, inj=()):
        if n <= 1:
            return 0
        if self.pos < len(self.prefix):
            c = self.prefix[self.pos]
            if not (0 <= c < n):
                raise ReplayDivergence(
                    f'choice {c} out of range {n} at decision {self.pos} '
                    f'({kind}:{label}) step {self.step}')
        else:
            c = 0
        self.pos += 1
        self.decisions.append(Decision(n, c, kind, running_enabled, label, self.step, inj))
        return c

    def choose(self, n, label=''):
        """Environment choice: returns an int in [0, n); default 0."""
        if self.aborting:
            raise AbortExecution()
        return self._decide(n, 'env', True, label)

    # ------------------------------------------------------------------ run
    def run_inline(self, main):
        global _ACTIVE
        self.inline = True
        prev = _ACTIVE
        _ACTIVE = self
        try:
            try:
                r = main()
                self.outcome = 'ok'
                return r
            except SeqDeadlock as e:
                self.outcome = 'deadlock'
                self.outcome_detail = str(e)
            except ReplayDivergence:
                raise
        finally:
            _ACTIVE = prev

    def run(self, main, join_timeout=30.0):
        global _ACTIVE
        if _ACTIVE is not None:
            raise HarnessError('nested Sched.run')
        _ACTIVE = self
        self._done = _thread.allocate_lock()
        self._done.acquire()
        try:
            t0 = self.spawn(main, 'user', role='user')
            self.current = t0
            t0.baton.release()
            self._done.acquire()
            # tear down: unwind parked threads one at a time
            self.aborting = True
            for t in list(self.threads):
                if t.state != DONE and t.real is not None:
                    try:
                        t.baton.release()
                    except RuntimeError:
                        pass
                    t.real.join(join_timeout)
                    if t.real.is_alive():
                        raise HarnessError(f'thread {t} did not unwind')
            for t in self.threads:
                if t.real is not None and t.real.is_alive():
                    t.real.join(join_timeout)
                    if t.real.is_alive():
                        raise HarnessError(f'thread {t} did not finish')
            if self._divergence is not None:
                raise self._divergence
        finally:
            _ACTIVE = None
        return self.outcome

    _divergence = None
    _has_prio = False

    # ---------------------------------------------------------------- spawn
    def spawn(self, fn, name, role=None, idle=False, prio=0, first_op=None):
        t = CThread(len(self.threads), name, fn, role, prio)
        if first_op is not None:
            # the new thread is born parked at its first operation
            t.op_kind, t.op_res, t.op_enabled = first_op
        self.threads.append(t)
        if len(self.threads) > self.max_threads:
            self.max_threads = len(self.threads)
        t.state = READY
        t.idle = idle
        if prio:
            self._has_prio = True
        t.real = _real_threading.Thread(target=self._body, args=(t,), daemon=True,
                                        name=f'vt-{name}')
        t.real.start()
        return t

    def _body(self, t):
        t.baton.acquire()
        if self.aborting:
            t.state = DONE
            return
        try:
            t.result = t.fn()
        except AbortExecution:
            pass
        except ReplayDivergence as e:
            self._divergence = e
            self._finish('divergence', str(e))
        except BaseException as e:  # noqa
            t.exc = e
            if not self.aborting:
                self.log.append((self.step, t.id, 'thread.crash',
                                 {'exc': repr(e), 'type': type(e).__name__}))
        finally:
            t.state = DONE
            if not self.aborting:
                try:
                    self._reschedule(None)
                except AbortExecution:
                    pass
                except ReplayDivergence as e:
                    self._divergence = e
                    self._finish('divergence', str(e))

    # ---------------------------------------------------------------- point
    def point(self, kind, res=None, enabled=None, idle=False,
              interruptible=False):
        """Scheduling point in front of a visible operation.

        Returns when the calling thread has been chosen *and* `enabled()` holds;
        the caller then performs the operation's effect before its next point,
        i.e. atomically.  Returns 'interrupt' when the thread was woken because a
        pending interrupt was delivered at an interruptible wait.
        """
        if self.aborting:
            raise AbortExecution()
        self.step += 1
        self.points += 1
        if enabled is not None and (self._nonblock or (
                self.current is not None and self.current.nonblock)) and not enabled():
            raise WouldBlock(f'{kind} on {res}')
        if self.inline:
            if enabled is not None and not enabled():
                raise SeqDeadlock(f'{kind} on {res} would block forever')
            return None
        if kind in self.nopreempt and (enabled is None or enabled()):
            if self.on_point is not None:
                self.on_point(self)
            return None
        me = self.current
        if self.step > self.horizon:
            self._finish('livelock', f'step horizon {self.horizon} exceeded')
            me.baton.acquire()
            raise AbortExecution()
        me.op_kind = kind
        me.op_res = res
        me.op_enabled = enabled
        me.idle = idle
        me.interruptible = interruptible
        if self.record_points:
            self.point_log.append((self.step, me.id, kind, str(res)))
        if self.on_point is not None:
            self.on_point(self)
        self._reschedule(me)
        me.op_enabled = None
        me.idle = False
        if interruptible and me.interrupt:
            if enabled is None or not enabled():
                me.interrupt = False
                me.interruptible = False
                return 'interrupt'
        me.interruptible = False
        return None

    def _enabled_threads(self):
        en = []
        for t in self.threads:
            if t.state == READY:
                f = t.op_enabled
                if f is None or f() or (t.interruptible and t.interrupt):
                    en.append(t)
        return en

    def _reschedule(self, me):
        en = self._enabled_threads()
        if not en:
            # maybe time must pass
            sleepers = [t for t in self.threads
                        if t.state == READY and t.wake is not None]
            if sleepers:
                self.now = min(t.wake for t in sleepers)
                en = self._enabled_threads()
        if not en:
            stuck = [t for t in self.threads if t.state == READY and not t.idle]
            if stuck:
                self._finish('deadlock', [
                    (t.id, t.name, t.op_kind, str(t.op_res)) for t in stuck])
            else:
                self._finish('ok', None)
            if me is not None:
                me.baton.acquire()
                raise AbortExecution()
            return
        if len(en) > 1 and self._has_prio:
            en.sort(key=_prio_key)
        if me is not None and me in en:
            if len(en) > 1:
                order = [me] + [t for t in en if t is not me]
            else:
                order = en
            running_enabled = True
        else:
            order = en
            running_enabled = False
        # a runnable thread may stay descheduled while (virtual) time passes: offer
        # "let the clock run to the next wake-up first" as one more alternative
        late = None
        if self.time_preempt and running_enabled:
            sl = [t for t in self.threads if t.state == READY and t.wake is not None
                  and t.wake > self.now and t not in en]
            if sl:
                late = min(sl, key=lambda t: (t.wake, t.id))
        n_opts = len(order) + (1 if late is not None else 0)
        if n_opts > 1:
            inj = ()
            if self._has_prio:
                inj = tuple(i for i, t in enumerate(order)
                            if t.prio and (t.op_kind == 'start' or t.op_kind.startswith('inject.')))
            idx = self._decide(n_opts, 'sched', running_enabled,
                               me.op_kind if me is not None else 'exit', inj)
        else:
            idx = 0
        if idx == len(order):
            self.user['time_preempted'] = True
            self.now = late.wake
            nxt = late
        else:
            nxt = order[idx]
        if nxt is me:
            return
        self.current = nxt
        nxt.baton.release()
        if me is not None:
            me.baton.acquire()
            if self.aborting:
                raise AbortExecution()

    def _finish(self, outcome, detail):
        if self.outcome is None:
            self.outcome = outcome
            self.outcome_detail = detail
        self.aborting = True
        try:
            self._done.release()
        except RuntimeError:
            pass

    # ------------------------------------------------------------ interrupts
    def deliver_interrupt(self, thread):
        thread.interrupt = True

    # ---------------------------------------------------------------- clock
    def time(self):
        return self.now

    def sleep(self, d, label=None):
        if self.inline:
            self.step += 1
            self.now += max(d, 0)
            return
        me = self.current
        wake = self.now + max(d, 0)
        me.wake = wake
        self.emit('sleep', d=d, label=label)
        try:
            self.point('sleep', wake, enabled=lambda: self.now >= wake)
        finally:
            me.wake = None

    # --------------------------------------------------------------- digest
    def digest(self):
        h = hashlib.sha256()
        for e in self.log:
            h.update(repr(e).encode())
        h.update(repr([d.as_tuple() for d in self.decisions]).encode())
        h.update(repr(self.outcome).encode())
        return h.hexdigest()[:16]

    def choices(self):
        return [d.chosen for d in self.decisions]


# ===========================================================================
# Controlled primitives (API of the stdlib ones)
# ===========================================================================

def _s():
    s = _ACTIVE
    if s is None:
        raise HarnessError('controlled primitive used without an active Sched')
    return s


class Lock:
    _kind = 'lock'

    def __init__(self):
        s = _s()
        self._sched = s
        self._owner = None
        self._id = s.new_id('L')

    def __repr__(self):
        return self._id

    def acquire(self, blocking=True, timeout=-1):
        s = self._sched
        if not blocking:
            s.point('lock.try', self)
            if self._owner is None:
                self._owner = s.current if not s.inline else True
                return True
            return False
        s.point('lock.acq', self, enabled=self._free)
        self._owner = s.current if not s.inline else True
        return True

    def _free(self):
        return self._owner is None

    def release(self):
        if self._owner is None:
            raise RuntimeError('release unlocked lock')
        self._owner = None
        # point *after* the release: what follows is no longer protected, so a
        # preemption here is distinguishable (unlocked writes after a release)
        s = self._sched
        if not s.inline and not s.aborting:
            s.point('lock.released', self)

    def locked(self):
        return self._owner is not None

    def __enter__(self):
        self.acquire()
        return True

    def __exit__(self, *a):
        self.release()


class RLock:
    def __init__(self):
        s = _s()
        self._sched = s
        self._owner = None
        self._count = 0
        self._id = s.new_id('RL')

    def __repr__(self):
        return self._id

    def _me(self):
        s = self._sched
        return s.current if not s.inline else True

    def acquire(self, blocking=True, timeout=-1):
        me = self._me()
        if self._owner is me:
            self._count += 1
            return True
        s = self._sched
        if not blocking:
            s.point('rlock.try', self)
            if self._owner is None:
                self._owner = me
                self._count = 1
                return True
            return False
        s.point('rlock.acq', self, enabled=lambda: self._owner is None)
        self._owner = self._me()
        self._count = 1
        return True

    def release(self):
        if self._owner is not self._me():
            raise RuntimeError('cannot release un-acquired lock')
        self._count -= 1
        if self._count == 0:
            self._owner = None

    def __enter__(self):
        self.acquire()
        return True

    def __exit__(self, *a):
        self.release()

    # Condition support
    def _release_save(self):
        c = self._count
        self._count = 0
        self._owner = None
        return c

    def _acquire_restore(self, c):
        self._owner = self._me()
        self._count = c

    def _free(self):
        return self._owner is None


class Condition:
    def __init__(self, lock=None):
        s = _s()
        self._sched = s
        if lock is None:
            lock = RLock()
        self._lock = lock
        self.acquire = lock.acquire
        self.release = lock.release
        self._waiters = []   # list of [thread, notified]
        self._id = s.new_id('C')

    def __repr__(self):
        return self._id

    def __enter__(self):
        return self._lock.__enter__()

    def __exit__(self, *a):
        return self._lock.__exit__(*a)

    def wait(self, timeout=None):
        s = self._sched
        lock = self._lock
        if isinstance(lock, RLock):
            saved = lock._release_save()
        else:
            if lock._owner is None:
                raise RuntimeError('cannot wait on un-acquired lock')
            lock._owner = None
            saved = None
        w = [s.current, False]
        self._waiters.append(w)
        try:
            r = s.point('cond.wait', self,
                        enabled=lambda: w[1] and lock._free(),
                        interruptible=True)
        finally:
            if w in self._waiters:
                self._waiters.remove(w)
        if r == 'interrupt':
            # re-acquire the lock before raising, as the stdlib does
            s.point('lock.acq', lock, enabled=lock._free)
            if saved is not None:
                lock._acquire_restore(saved)
            else:
                lock._owner = s.current if not s.inline else True
            raise KeyboardInterrupt()
        if saved is not None:
            lock._acquire_restore(saved)
        else:
            lock._owner = s.current if not s.inline else True
        return True

    def wait_for(self, predicate, timeout=None):
        r = predicate()
        while not r:
            self.wait()
            r = predicate()
        return r

    def notify(self, n=1):
        k = 0
        for w in list(self._waiters):
            if k >= n:
                break
            if not w[1]:
                w[1] = True
                self._waiters.remove(w)
                k += 1

    def notify_all(self):
        self.notify(len(self._waiters))

    notifyAll = notify_all


class Event:
    def __init__(self):
        s = _s()
        self._sched = s
        self._flag = False
        self._id = s.new_id('E')

    def __repr__(self):
        return self._id

    def is_set(self):
        return self._flag

    isSet = is_set

    def set(self):
        self._sched.point('event.set', self)
        self._flag = True

    def clear(self):
        self._flag = False

    def wait(self, timeout=None):
        s = self._sched
        if timeout is not None and not self._flag:
            # finite timeout: may expire (only when nothing else can run would
            # be more precise; nobody in the explored code uses it)
            s.point('event.wait_timeout', self)
            return self._flag
        r = s.point('event.wait', self, enabled=self.is_set, interruptible=True)
        if r == 'interrupt':
            raise KeyboardInterrupt()
        return True


class Semaphore:
    def __init__(self, value=1):
        s = _s()
        self._sched = s
        if value < 0:
            raise ValueError('semaphore initial value must be >= 0')
        self._value = value
        self._initial = value
        self._id = s.new_id('S')
        reg = s.user.setdefault('semaphores', [])
        reg.append(self)

    def __repr__(self):
        return f'{self._id}({self._value}/{self._initial})'

    def _avail(self):
        return self._value > 0

    def acquire(self, blocking=True, timeout=None):
        s = self._sched
        if not blocking:
            s.point('sem.try', self)
            if self._value > 0:
                self._value -= 1
                return True
            return False
        r = s.point('sem.acq', self, enabled=self._avail, interruptible=True)
        if r == 'interrupt':
            raise KeyboardInterrupt()
        self._value -= 1
        return True

    __enter__ = acquire

    def release(self, n=1):
        self._value += n
        s = self._sched
        if not s.inline and not s.aborting:
            s.point('sem.released', self)

    def __exit__(self, *a):
        self.release()


class BoundedSemaphore(Semaphore):
    def release(self, n=1):
        if self._value + n > self._initial:
            raise ValueError('Semaphore released too many times')
        self._value += n


class Thread:
    """Controlled stand-in for threading.Thread (also used for Process)."""

    def __init__(self, group=None, target=None, name=None, args=(), kwargs=None,
                 daemon=None):
        self._sched = _s()
        self._target = target
        self._args = args
        self._kwargs = kwargs or {}
        self.name = name or 'thread'
        self.daemon = daemon
        self._ct = None

    def run(self):
        if self._target is not None:
            self._target(*self._args, **self._kwargs)

    def start(self):
        s = self._sched
        s.point('thread.start', self.name)
        self._ct = s.spawn(self.run, self.name)

    def join(self, timeout=None):
        s = self._sched
        ct = self._ct
        r = s.point('thread.join', self.name,
                    enabled=lambda: ct.state == DONE, interruptible=True)
        if r == 'interrupt':
            raise KeyboardInterrupt()

    def is_alive(self):
        return self._ct is not None and self._ct.state != DONE


class _CurrentThreadProxy:
    def __init__(self, ct):
        self.name = ct.name if ct is not None else 'MainThread'
        self.ident = ct.id if ct is not None else 0


def current_thread():
    s = _ACTIVE
    return _CurrentThreadProxy(s.current if s is not None else None)


class ThreadingShim:
    """Module-like object to bind as `<module>.threading`."""
    Lock = Lock
    RLock = RLock
    Condition = Condition
    Event = Event
    Semaphore = Semaphore
    BoundedSemaphore = BoundedSemaphore
    Thread = Thread
    current_thread = staticmethod(current_thread)

    def __getattr__(self, name):
        return getattr(_real_threading, name)


SHIM = ThreadingShim()


# ===========================================================================
# Shared fields: make reads/writes of selected attributes scheduling points
# ===========================================================================

class SharedField:
    def __init__(self, name, reads=True):
        self.name = name
        self.reads = reads

    def __set_name__(self, owner, name):
        pass

    def __get__(self, obj, objtype=None):
        if obj is None:
            return self
        s = _ACTIVE
        if s is not None and self.reads and not s.inline and not s.aborting \
                and s.current is not None:
            s.point('rd', self.name)
        try:
            return obj.__dict__[self.name]
        except KeyError:
            raise AttributeError(self.name)

    def __set__(self, obj, value):
        s = _ACTIVE
        if s is not None and not s.aborting:
            if not s.inline and s.current is not None and self.name in obj.__dict__:
                s.point('wr', self.name)
            s.emit('field', cls=type(obj).__name__, oid=getattr(obj, 'transfer_id', None),
                   name=self.name, value=_short(value))
        obj.__dict__[self.name] = value


def _short(v):
    if isinstance(v, BaseException):
        return f'{type(v).__name__}({v})'
    if isinstance(v, (str, int, float, type(None), bool)):
        return v
    return type(v).__name__


def install_shared_fields(cls, names, reads=True):
    for n in names:
        setattr(cls, n, SharedField(n, reads))


def uninstall_shared_fields(cls, names):
    for n in names:
        if isinstance(cls.__dict__.get(n), SharedField):
            delattr(cls, n)


# ===========================================================================
# DetExecutor / DetFuture: model of concurrent.futures.ThreadPoolExecutor
# ===========================================================================

class DetFuture:
    def __init__(self, sched, label=''):
        self._sched = sched
        self._state = 'PENDING'   # PENDING RUNNING FINISHED
        self._result = None
        self._exception = None
        self._callbacks = []
        self._id = sched.new_id('F')
        self.label = label

    def __repr__(self):
        return f'{self._id}[{self.label}]'

    def done(self):
        # concurrent.futures.Future.done() takes the future's condition lock: a synchronisation
        # operation, hence a scheduling point - one before the state is read and one after it was
        # read (what the caller does with a stale answer is where check-then-act races live).
        # Both are skipped at coarse granularity.
        s = self._sched
        if s is not None and not s.inline and not s.aborting and s.current is not None:
            s.point('fut.done', self)
            r = self._state == 'FINISHED'
            s.point('fut.done.ret', self)
            return r
        return self._state == 'FINISHED'

    def _is_done(self):
        return self._state == 'FINISHED'

    def result(self, timeout=None):
        s = self._sched
        r = s.point('fut.result', self, enabled=self._is_done, interruptible=True)
        if r == 'interrupt':
            raise KeyboardInterrupt()
        if self._exception is not None:
            raise self._exception
        return self._result

    def exception(self, timeout=None):
        s = self._sched
        s.point('fut.result', self, enabled=self._is_done)
        return self._exception

    def cancel(self):
        """concurrent.futures.Future.cancel: only a future that has not started can be cancelled"""
        s = self._sched
        s.point('fut.cancel', self)
        if self._state == 'PENDING':
            import concurrent.futures as _cf
            self._cancelled = True
            self._exception = _cf.CancelledError()
            self._state = 'FINISHED'
            cbs, self._callbacks = self._callbacks, []
            for fn in cbs:
                self._invoke(fn)
            return True
        return getattr(self, '_cancelled', False)

    def cancelled(self):
        return getattr(self, '_cancelled', False)

    def add_done_callback(self, fn):
        s = self._sched
        s.point('fut.add_cb', self)
        if self._state != 'FINISHED':
            self._callbacks.append(fn)
            return
        self._invoke(fn)

    def _invoke(self, fn):
        try:
            fn(self)
        except AbortExecution:
            raise
        except Exception as e:   # stdlib logs and continues
            self._sched.emit('fut.cb_exception', fut=self._id, exc=repr(e))

    def set_result(self, result):
        s = self._sched
        s.point('fut.set', self)
        self._result = result
        self._state = 'FINISHED'
        # CPython: waiters are notified first, callbacks run afterwards in the
        # completing thread; between two callbacks other threads may run.
        # (like the stdlib future, the callback list is kept after it ran: whatever the
        #  callbacks reference stays alive as long as the future does)
        for fn in list(self._callbacks):
            self._invoke(fn)

    def set_exception(self, exc):
        s = self._sched
        s.point('fut.set', self)
        self._exception = exc
        self._state = 'FINISHED'
        for fn in list(self._callbacks):
            self._invoke(fn)


class DetExecutor:
    """FIFO work queue, lazily spawned workers up to max_workers."""

    _count = 0

    def __init__(self, max_workers=None, **kw):
        s = _s()
        self._sched = s
        self._max_workers = max_workers or 1
        self._queue = []
        self._workers = []
        self._idle = 0
        self._shutdown = False
        reg = s.user.setdefault('executors', [])
        self._name = f'ex{len(reg)}'
        reg.append(self)
        self.max_queue_seen = 0
        self.running = 0
        self.max_running = 0

    def __repr__(self):
        return self._name

    def submit(self, fn, *args, **kwargs):
        s = self._sched
        s.point('ex.submit', self)
        if self._shutdown:
            raise RuntimeError('cannot schedule new futures after shutdown')
        f = DetFuture(s, label=_task_label(fn))
        self._queue.append((f, fn, args, kwargs))
        if len(self._queue) > self.max_queue_seen:
            self.max_queue_seen = len(self._queue)
        s.emit('ex.submit', ex=self._name, fut=f._id, task=f.label)
        # ThreadPoolExecutor._adjust_thread_count: reuse an idle worker if one
        # is parked, otherwise spawn while below max_workers.
        if self._idle > 0:
            self._idle -= 1          # idle_semaphore.acquire(timeout=0)
        elif len(self._workers) < self._max_workers:
            w = s.spawn(self._worker, f'{self._name}-w{len(self._workers)}',
                        role=self._name, idle=True,
                        first_op=('ex.dequeue', self, self._has_work))
            self._workers.append(w)
        return f

    def _has_work(self):
        return bool(self._queue) or self._shutdown

    def _worker(self):
        s = self._sched
        first = True
        while True:
            if first:
                first = False     # born parked at this very operation
                s.current.idle = False
                s.current.op_enabled = None
            else:
                s.point('ex.dequeue', self, enabled=self._has_work, idle=True)
            if not self._queue:
                if self._shutdown:
                    return
                continue
            f, fn, args, kwargs = self._queue.pop(0)
            if f._state != 'PENDING':      # cancelled while queued (set_running_or_notify_cancel)
                del f, fn, args, kwargs
                if not self._queue:
                    self._idle += 1
                continue
            f._state = 'RUNNING'
            self.running += 1
            if self.running > self.max_running:
                self.max_running = self.running
            s.emit('ex.start', ex=self._name, fut=f._id, task=f.label)
            try:
                r = fn(*args, **kwargs)
            except AbortExecution:
                raise
            except BaseException as e:  # noqa  (3.12 catches BaseException)
                self.running -= 1
                s.emit('ex.end', ex=self._name, fut=f._id, task=f.label, exc=repr(e))
                f.set_exception(e)
            else:
                self.running -= 1
                s.emit('ex.end', ex=self._name, fut=f._id, task=f.label)
                f.set_result(r)
            del f, fn, args, kwargs
            if not self._queue:
                self._idle += 1       # idle_semaphore.release()

    def shutdown(self, wait=True, cancel_futures=False):
        s = self._sched
        s.point('ex.shutdown', self)
        self._shutdown = True
        s.emit('ex.shutdown', ex=self._name)
        if wait:
            for w in list(self._workers):
                r = s.point('thread.join', w.name,
                            enabled=lambda w=w: w.state == DONE,
                            interruptible=True)
                if r == 'interrupt':
                    raise KeyboardInterrupt()

    def __enter__(self):
        return self

    def __exit__(self, *a):
        self.shutdown(wait=True)
        return False

    def map(self, fn, *iterables, timeout=None, chunksize=1):
        fs = [self.submit(fn, *args) for args in zip(*iterables)]

        def result_iterator():
            # stdlib: results in submission order; when the consumer stops (an exception from
            # result() propagating out of the generator), the futures not yet consumed are cancelled
            rest = list(fs)
            try:
                while rest:
                    f = rest.pop(0)
                    yield f.result()
            finally:
                for f in rest:
                    f.cancel()
        return result_iterator()


FIRST_COMPLETED, FIRST_EXCEPTION, ALL_COMPLETED = 'FIRST_COMPLETED', 'FIRST_EXCEPTION', 'ALL_COMPLETED'


def det_wait(fs, timeout=None, return_when=ALL_COMPLETED):
    """concurrent.futures.wait over DetFutures -> (done, not_done) in input order"""
    fs = list(fs)
    s = _s()

    def ready():
        done = [f for f in fs if f._state == 'FINISHED']
        if return_when == FIRST_COMPLETED:
            return bool(done)
        if return_when == FIRST_EXCEPTION:
            if any(f._exception is not None and not f.cancelled() for f in done):
                return True
        return len(done) == len(fs)
    r = s.point('fut.wait', tuple(fs), enabled=ready, interruptible=True)
    if r == 'interrupt':
        raise KeyboardInterrupt()
    done = [f for f in fs if f._state == 'FINISHED']
    return done, [f for f in fs if f._state != 'FINISHED']


def _task_label(fn):
    try:
        r = type(fn).__name__
        mk = getattr(fn, '_main_kwargs', None)
        if isinstance(mk, dict):
            if 'part_number' in mk:
                r += f"#{mk['part_number']}"
            elif 'offset' in mk:
                r += f"@{mk['offset']}"
            elif 'start_index' in mk:
                r += f"@{mk['start_index']}"
        tid = getattr(fn, 'transfer_id', None)
        if tid is not None:
            r = f't{tid}.{r}'
        return r
    except Exception:
        return 'task'


# ===========================================================================
# DetQueue: stands in for multiprocessing.Queue / queue.Queue
# ===========================================================================

class DetQueue:
    def __init__(self, maxsize=0):
        s = _s()
        self._sched = s
        self._items = []
        self._maxsize = maxsize
        self._id = s.new_id('Q')

    def __repr__(self):
        return self._id

    def put(self, item, block=True, timeout=None):
        s = self._sched
        s.point('q.put', self,
                enabled=(lambda: len(self._items) < self._maxsize)
                if self._maxsize else None)
        self._items.append(item)

    def get(self, block=True, timeout=None):
        s = self._sched
        s.point('q.get', self, enabled=lambda: bool(self._items), idle=True)
        return self._items.pop(0)

    def get_nowait(self):
        import queue as _q
        self._sched.point('q.get_nowait', self)
        if not self._items:
            raise _q.Empty()
        return self._items.pop(0)

    def put_nowait(self, item):
        import queue as _q
        self._sched.point('q.put_nowait', self)
        if self._maxsize and len(self._items) >= self._maxsize:
            raise _q.Full()
        self._items.append(item)

    def qsize(self):
        return len(self._items)

    def empty(self):
        return not self._items


class DetLegacyQueue(DetQueue):
    """base for classes written against queue.Queue's `_init` hook (legacy ShutdownQueue)"""

    def __init__(self, maxsize=0):
        DetQueue.__init__(self, maxsize)
        self._init(maxsize)

    def _init(self, maxsize):
        pass


class DetClock:
    """time_utils object / `time` module stand-in backed by the virtual clock."""

    def time(self):
        return _s().time()

    def sleep(self, value):
        return _s().sleep(value)


# op kinds that are not preemption points in 'coarse' granularity: they touch
# no synchronisation object; what they read (coordinator fields) is covered by
# the neighbouring points.  'fine' granularity preempts everywhere.
COARSE_SKIP = frozenset(['body.read', 'stream.read', 'src.read', 'fs.read',
                         'fut.add_cb', 'fut.done', 'fut.done.ret', 'rd', 'cb.progress', 'sem.released',
                         'fs.size', 'fs.seek'])
