"""Records the request-body protocol of the REAL botocore S3 client (offline) and
compares it with what the fake client (env/s3.py) does to a body.

A real client is created with dummy credentials; a `before-send` responder plays
the HTTP layer (reads the prepared body like urllib3 does, answers 200 or a
retryable 500).  The body is a recorder exposing the interface of
s3transfer.utils.ReadFileChunk.  The event handlers s3transfer registers
(signal_not_transferring first / signal_transferring last on request-created)
are registered exactly as TransferManager does.
"""
import io

import botocore.awsrequest
import botocore.endpoint
import botocore.session
from botocore.config import Config

from s3transfer.utils import signal_not_transferring, signal_transferring


class RecBody:
    def __init__(self, data, log):
        self._b = io.BytesIO(data)
        self._n = len(data)
        self.log = log

    def read(self, amt=None):
        d = self._b.read(amt if amt is not None else -1)
        self.log.append(('read', len(d)))
        return d

    def seek(self, where, whence=0):
        self.log.append(('seek', where))
        return self._b.seek(where, whence)

    def tell(self):
        self.log.append(('tell',))
        return self._b.tell()

    def signal_transferring(self):
        self.log.append(('ST',))

    def signal_not_transferring(self):
        self.log.append(('SNT',))

    def __len__(self):
        return self._n

    def __iter__(self):
        return iter([])

    def close(self):
        pass


class _Raw(io.BytesIO):
    def stream(self, amt=1024, decode_content=None):
        while True:
            c = self.read(amt)
            if not c:
                break
            yield c


def record(op, rcc, fail_first=0, size=6, read_chunk=4, http=False):
    """-> normalized op log of one client call"""
    log = []
    sess = botocore.session.get_session()
    kw = {'endpoint_url': 'http://127.0.0.1:1'} if http else {}
    client = sess.create_client(
        's3', region_name='us-east-1', aws_access_key_id='AKIDEXAMPLE', aws_secret_access_key='secret', **kw,
        config=Config(request_checksum_calculation=rcc, retries={'max_attempts': 3, 'mode': 'legacy'},
                      s3={'addressing_style': 'path'}))
    client.meta.events.register_first('request-created.s3', signal_not_transferring, unique_id='s3upload-not-transferring')
    client.meta.events.register_last('request-created.s3', signal_transferring, unique_id='s3upload-transferring')
    state = {'n': 0}

    def responder(request, **kw):
        # play the HTTP layer: send the body
        body = request.body
        log.append(('send-begin',))
        if body is not None and hasattr(body, 'read'):
            while True:
                d = body.read(read_chunk)
                if not d:
                    break
        log.append(('send-end',))
        state['n'] += 1
        if state['n'] <= fail_first:
            return botocore.awsrequest.AWSResponse(request.url, 500, {}, _Raw(
                b'<Error><Code>InternalError</Code><Message>x</Message></Error>'))
        return botocore.awsrequest.AWSResponse(request.url, 200, {'ETag': '"abc"'}, _Raw(b''))
    client.meta.events.register('before-send.s3', responder)
    real_sleep = botocore.endpoint.time.sleep
    botocore.endpoint.time.sleep = lambda s: None
    try:
        body = RecBody(b'x' * size, log)
        if op == 'PutObject':
            client.put_object(Bucket='b', Key='k', Body=body)
        else:
            client.upload_part(Bucket='b', Key='k', Body=body, UploadId='u', PartNumber=1)
    finally:
        botocore.endpoint.time.sleep = real_sleep
    return normalize(log)


def normalize(log):
    """collapse read runs: ('read*', total) ; keep order of tell/seek/SNT/ST/send markers"""
    out = []
    for e in log:
        if e[0] == 'read':
            if out and out[-1][0] == 'read*':
                out[-1] = ('read*', out[-1][1] + e[1])
            else:
                out.append(('read*', e[1]))
        else:
            out.append(e)
    return out


def fake_sequence(op, rcc, retries, size=6, read_chunk=4, http=False):
    """what env/s3.FakeClient does to the same recorder body"""
    from ..detsched import Sched
    from .s3 import FakeS3, FakeClient, FaultPlan
    log = []
    s = Sched(prefix=[])
    out = {}

    def main():
        s3 = FakeS3(s)
        plan = FaultPlan(sites=['body:retry'] if retries else (), max_body_retries=retries)
        c = FakeClient(s3, s, plan=plan, rcc=rcc, body_read_size=read_chunk, http=http)
        c.meta.events.register_first('request-created.s3', signal_not_transferring, unique_id='a')
        c.meta.events.register_last('request-created.s3', signal_transferring, unique_id='b')
        # mark the send phase the same way
        c.on_send_begin = lambda: log.append(('send-begin',))
        c.on_send_end = lambda: log.append(('send-end',))
        body = RecBody(b'x' * size, log)
        if op == 'PutObject':
            c.put_object(Bucket='b', Key='k', Body=body)
        else:
            s3.uploads['u'] = {'id': 'u', 'bucket': 'b', 'key': 'k', 'parts': {}, 'state': 'open', 'completes': 0,
                               'aborts': 0, 'algo': None, 'ctype': None}
            c.upload_part(Bucket='b', Key='k', Body=body, UploadId='u', PartNumber=1)
    # retry after the body was fully sent: the choice sequence "no retry while reading, retry at EOF"
    # is found by trying prefixes: the retry site is consulted after every send read
    nreads = -(-size // read_chunk) + 1
    pre = []
    for r in range(retries):
        pre += [0] * (nreads - 1) + [1]
    s.prefix = pre
    s.run_inline(main)
    return normalize(log)


def conformance():
    """-> (n_compared, mismatches[]) over op x rcc x retries"""
    mism = []
    n = 0
    protos = {}
    for op in ('PutObject', 'UploadPart'):
        for rcc in ('when_required', 'when_supported'):
            for retries in (0, 1):
                real = record(op, rcc, fail_first=retries)
                fake = fake_sequence(op, rcc, retries)
                n += 1
                protos[f'{op}/{rcc}/retries={retries}'] = real
                if strip(real) != strip(fake):
                    mism.append({'case': f'{op}/{rcc}/retries={retries}', 'real_botocore': real, 'fake_client': fake})
        # plain-http endpoint: header checksum computed before the request is created
        for rcc in ('when_required', 'when_supported'):
            for retries in (0, 1):
                real = record(op, rcc, fail_first=retries, http=True)
                fake = fake_sequence(op, rcc, retries, http=True)
                n += 1
                protos[f'{op}/{rcc}/http/retries={retries}'] = real
                if strip(real) != strip(fake):
                    mism.append({'case': f'{op}/{rcc}/http/retries={retries}', 'real_botocore': real, 'fake_client': fake})
    return n, mism, protos


def strip(seq):
    """compare what s3transfer's body can observe: order of SNT / ST / tell / seek(0) / read runs
    relative to the send phase; AwsChunkedWrapper read sizes differ, totals of the send phase must match"""
    out = []
    for e in seq:
        if e[0] == 'read*':
            out.append(('read*', e[1]))
        elif e[0] in ('send-begin', 'send-end'):
            continue          # markers of the recorder only
        else:
            out.append(e)
    return out


if __name__ == '__main__':
    n, mism, protos = conformance()
    for k, v in protos.items():
        print(k, v)
    print('compared', n, 'mismatches', len(mism))
    for m in mism:
        print(m)
