"""Stub `awscrt` package (awscrt is not installed in this image) + stub S3Client
whose requests are completed by the explorer.

The stubs are installed in sys.modules AFTER botocore has been imported so that
botocore's own HAS_CRT stays False.  Only the names s3transfer/crt.py uses exist.
Completion protocol (trusted, as crt.py itself documents: "the CRT future has
done already at this point"): finished_future is completed first, then on_done
is called, both on the CRT event-loop thread.
"""
import enum
import sys
import types

import botocore  # noqa: F401  (must be imported before the stubs are installed)
import botocore.session  # noqa: F401
import botocore.compat  # noqa: F401

from .. import detsched


class S3ResponseError(Exception):
    def __init__(self, code=500, operation_name=None):
        super().__init__(f'S3ResponseError {code}')
        self.status_code = code
        self.headers = []
        self.body = b''
        self.operation_name = operation_name


class CrtCancelled(Exception):
    """what awscrt raises for a cancelled request (AWS_ERROR_S3_CANCELED)"""


class S3RequestType(enum.Enum):
    DEFAULT = 0
    GET_OBJECT = 1
    PUT_OBJECT = 2


class S3RequestTlsMode(enum.Enum):
    ENABLED = 0
    DISABLED = 1


class S3ChecksumAlgorithm(enum.Enum):
    CRC32C = 1
    CRC32 = 2
    SHA1 = 3
    SHA256 = 4
    CRC64NVME = 5


class S3ChecksumLocation(enum.Enum):
    HEADER = 1
    TRAILER = 2


class S3ChecksumConfig:
    def __init__(self, algorithm=None, location=None, validate_response=False):
        self.algorithm = algorithm
        self.location = location
        self.validate_response = validate_response


class _Dummy:
    def __init__(self, *a, **k):
        pass


class AwsSigningAlgorithm(enum.Enum):
    V4 = 0
    V4_ASYMMETRIC = 1
    V4_S3EXPRESS = 2


class AwsSigningConfig(_Dummy):
    pass


class HttpHeaders:
    def __init__(self, lst=None):
        self._l = list(lst or [])

    def get(self, k, default=None):
        for a, b in self._l:
            if a.lower() == k.lower():
                return b
        return default

    def set(self, k, v):
        self.remove(k)
        self._l.append((k, v))

    def add(self, k, v):
        self._l.append((k, v))

    def remove(self, k):
        self._l = [(a, b) for a, b in self._l if a.lower() != k.lower()]


class HttpRequest:
    def __init__(self, method='GET', path='/', headers=None, body_stream=None):
        self.method, self.path, self.headers, self.body_stream = method, path, headers or HttpHeaders(), body_stream


class S3Client(_Dummy):
    pass


def install():
    if 'awscrt' in sys.modules and getattr(sys.modules['awscrt'], '_vt_stub', False):
        return
    pkg = types.ModuleType('awscrt')
    pkg._vt_stub = True
    pkg.__path__ = []
    http = types.ModuleType('awscrt.http')
    http.HttpHeaders, http.HttpRequest = HttpHeaders, HttpRequest
    s3 = types.ModuleType('awscrt.s3')
    for n, v in dict(S3Client=S3Client, S3RequestTlsMode=S3RequestTlsMode, S3RequestType=S3RequestType,
                     S3ChecksumAlgorithm=S3ChecksumAlgorithm, S3ChecksumLocation=S3ChecksumLocation,
                     S3ChecksumConfig=S3ChecksumConfig, S3ResponseError=S3ResponseError,
                     CrossProcessLock=_Dummy, get_recommended_throughput_target_gbps=lambda: None).items():
        setattr(s3, n, v)
    auth = types.ModuleType('awscrt.auth')
    for n in ('AwsCredentials', 'AwsCredentialsProvider'):
        setattr(auth, n, _Dummy)
    auth.AwsSigningAlgorithm, auth.AwsSigningConfig = AwsSigningAlgorithm, AwsSigningConfig
    io = types.ModuleType('awscrt.io')
    for n in ('ClientBootstrap', 'ClientTlsContext', 'DefaultHostResolver', 'EventLoopGroup', 'TlsContextOptions'):
        setattr(io, n, _Dummy)
    pkg.http, pkg.s3, pkg.auth, pkg.io = http, s3, auth, io
    sys.modules.update({'awscrt': pkg, 'awscrt.http': http, 'awscrt.s3': s3, 'awscrt.auth': auth, 'awscrt.io': io})


# ---------------------------------------------------------------------------
# stub client driven by the explorer
# ---------------------------------------------------------------------------

class StubFuture:
    def __init__(self, sched):
        self._s = sched
        self._done = False
        self._exc = None

    def done(self):
        return self._done

    def result(self, timeout=None):
        r = self._s.point('crtfut.result', id(self) % 1000, enabled=lambda: self._done, interruptible=True)
        if r == 'interrupt':
            raise KeyboardInterrupt()
        if self._exc is not None:
            raise self._exc
        return None

    def _complete(self, exc):
        self._s.point('crtfut.set', 0)
        self._exc = exc
        self._done = True


class StubRequest:
    def __init__(self, client, idx, kwargs):
        self.client = client
        self.idx = idx
        self.kwargs = kwargs
        self.finished_future = StubFuture(client.sched)
        self.cancel_requested = False
        self.completed = False

    def cancel(self):
        s = self.client.sched
        s.point('crt.cancel', self.idx)
        s.emit('crt.cancel', req=self.idx)
        self.cancel_requested = True


class StubCRTClient:
    """make_request records the request; an event-loop thread completes the
    pending requests in an order and with outcomes chosen by the explorer."""

    def __init__(self, sched, world, fail_make_request=()):
        self.sched = sched
        self.world = world
        self.requests = []
        self.fail_make_request = set(fail_make_request)
        self.n_calls = 0
        self.loop_thread = None
        self.closing = False

    def make_request(self, **kwargs):
        s = self.sched
        s.point('crt.make_request', self.n_calls)
        i = self.n_calls
        self.n_calls += 1
        s.emit('crt.make_request', n=i, type=str(kwargs.get('type')), recv=bool(kwargs.get('recv_filepath')))
        if i in self.fail_make_request:
            raise RuntimeError(f'make_request {i} failed')
        r = StubRequest(self, i, kwargs)
        self.requests.append(r)
        if self.loop_thread is None:
            self.loop_thread = s.spawn(self._loop, 'crt-loop', idle=True,
                                       first_op=('crt.loop', None, self._has_pending))
        return r

    def _pending(self):
        return [r for r in self.requests if not r.completed]

    def _has_pending(self):
        return bool(self._pending()) or self.closing

    def _loop(self):
        s = self.sched
        first = True
        while True:
            if first:
                first = False
                s.current.idle = False
                s.current.op_enabled = None
            else:
                s.point('crt.loop', None, enabled=self._has_pending, idle=True)
            pend = self._pending()
            if not pend:
                if self.closing:
                    return
                continue
            k = s.choose(len(pend), 'crt:order') if len(pend) > 1 else 0
            r = pend[k]
            self._complete(r)

    def _complete(self, r):
        s = self.sched
        w = self.world
        kw = r.kwargs
        if r.cancel_requested:
            outcome = 2
        else:
            outcome = s.choose(2, 'crt:outcome')          # 0 success, 1 error
        s.emit('crt.complete', req=r.idx, outcome=('success', 'error', 'cancelled')[outcome])
        err = None
        data = w.data_for(r)
        if outcome == 0:
            if kw.get('recv_filepath'):
                with open(kw['recv_filepath'], 'wb') as fh:
                    fh.write(data)
            elif kw.get('on_body') is not None:
                for i in range(0, len(data), 2):
                    kw['on_body'](chunk=data[i:i + 2], offset=i)
            if kw.get('on_progress') is not None and data:
                kw['on_progress'](len(data))
        else:
            if kw.get('recv_filepath'):
                with open(kw['recv_filepath'], 'wb') as fh:       # partial temp file
                    fh.write(data[:1])
            err = CrtCancelled('request cancelled') if outcome == 2 else S3ResponseError(500)
        r.completed = True
        r.finished_future._complete(err)
        s.point('crt.on_done', r.idx)
        s.emit('crt.on_done.begin', req=r.idx)
        try:
            kw['on_done'](error=err)
        except detsched.AbortExecution:
            raise
        except BaseException as e:  # noqa   (the CRT swallows exceptions of python callbacks)
            s.emit('crt.on_done.raised', req=r.idx, exc=repr(e))
        s.emit('crt.on_done.end', req=r.idx)
