"""File-system environment: FaultyOSUtils on a real scratch directory, user
streams (seekable / non-seekable, sources and sinks), directory monitor."""
import io
import os
import shutil
import tempfile

from s3transfer.utils import OSUtils

from .s3 import InjectedOSError, InjectedReadError, InjectedBrokenPipe


def scratch_root():
    r = os.environ.get('VT_SCRATCH_ROOT')
    if r and os.path.isdir(r):
        return r
    for d in ('/dev/shm', os.environ.get('TMPDIR') or '/tmp'):
        if os.path.isdir(d) and os.access(d, os.W_OK):
            return d
    return tempfile.gettempdir()


class ScratchDir:
    def __init__(self, tag='vt'):
        self.path = tempfile.mkdtemp(prefix=f'{tag}-', dir=scratch_root())

    def cleanup(self):
        shutil.rmtree(self.path, ignore_errors=True)

    def reset(self):
        for n in os.listdir(self.path):
            p = os.path.join(self.path, n)
            if os.path.isdir(p):
                shutil.rmtree(p, ignore_errors=True)
            else:
                try:
                    os.remove(p)
                except OSError:
                    pass

    def listing(self):
        return sorted(os.listdir(self.path))


class FaultyFile:
    """Proxy around a real file object handed out by FaultyOSUtils.open."""

    def __init__(self, osu, f, filename, mode):
        self._o = osu
        self._f = f
        self._name = filename
        self._mode = mode

    @property
    def name(self):
        return self._name

    def _site(self, op, **kw):
        o = self._o
        s = o.sched
        s.point('fs.' + op, os.path.basename(self._name))
        if o.fault_on('fs:' + op, self._name):
            k = s.choose(3 if op == 'write' else 2, 'fs:' + op)
            if k:
                cls = InjectedBrokenPipe if k == 2 else InjectedOSError
                e = cls(f'injected {op} fault on {os.path.basename(self._name)}')
                o.note_injected(e, 'fs:' + op)
                raise e
        s.emit('fs.' + op, file=os.path.basename(self._name), **kw)

    def write(self, data):
        o = self._o
        o.writers[self._name] = o.writers.get(self._name, 0) + 1
        if o.writers[self._name] > o.max_writers:
            o.max_writers = o.writers[self._name]
        try:
            self._site('write', n=len(data), pos=self._f.tell())
            return self._f.write(data)
        finally:
            o.writers[self._name] -= 1

    def read(self, n=-1):
        self._o.sched.point('fs.read', os.path.basename(self._name))
        if self._o.fault_on('fs:read', self._name):
            if self._o.sched.choose(2, 'fs:read'):
                e = InjectedReadError('injected source read fault')
                self._o.note_injected(e, 'fs:read')
                raise e
        if n is None:
            n = -1
        return self._f.read(n)

    def seek(self, where, whence=0):
        if 'w' in self._mode or '+' in self._mode:
            self._site('seek', where=where)
        return self._f.seek(where, whence)

    def tell(self):
        return self._f.tell()

    def close(self):
        if not self._f.closed:
            if 'w' in self._mode or '+' in self._mode:
                self._site('close')
            self._f.close()

    def flush(self):
        return self._f.flush()

    def fileno(self):
        return self._f.fileno()

    def truncate(self, n=None):
        return self._f.truncate(n)

    @property
    def closed(self):
        return self._f.closed

    def __enter__(self):
        return self

    def __exit__(self, *a):
        self.close()


class FaultyOSUtils(OSUtils):
    """Every method defers to the real OSUtils (so changes inside it are still
    exercised) with a scheduling point and an optional fault choice around it."""

    def __init__(self, sched, fault_sites=(), special=()):
        self.sched = sched
        self.fault_sites = tuple(fault_sites)
        self.injected = []
        self.special = set(special)
        self.special_sinks = {}
        self.writers = {}
        self.max_writers = 0

    only_prefix = None

    def fault_on(self, label, name=None):
        if self.only_prefix is not None and name is not None:
            if not os.path.basename(str(name)).startswith(self.only_prefix):
                return False
        for s in self.fault_sites:
            if label.startswith(s):
                return True
        return False

    def note_injected(self, exc, label):
        self.injected.append({'exc': exc, 'label': label, 'retryable': False,
                              'step': self.sched.step})
        self.sched.emit('fault', label=label, exc=type(exc).__name__, retryable=False)

    def _site(self, op, name, **kw):
        s = self.sched
        s.point('fs.' + op, os.path.basename(str(name)))
        if self.fault_on('fs:' + op, name):
            if s.choose(2, 'fs:' + op):
                e = InjectedOSError(f'injected {op} fault on {os.path.basename(str(name))}')
                self.note_injected(e, 'fs:' + op)
                raise e
        s.emit('fs.' + op, file=os.path.basename(str(name)), **kw)

    def get_file_size(self, filename):
        self._site('size', filename)
        return super().get_file_size(filename)

    def open(self, filename, mode):
        self._site('open', filename, mode=mode)
        if filename in self.special:
            sink = self.special_sinks.setdefault(filename, SinkStream(self.sched, seekable=False, name='special'))
            return sink
        return FaultyFile(self, super().open(filename, mode), filename, mode)

    def remove_file(self, filename):
        self.sched.point('fs.remove', os.path.basename(filename))
        self.sched.emit('fs.remove', file=os.path.basename(filename))
        return super().remove_file(filename)

    def rename_file(self, current_filename, new_filename):
        self._site('rename', current_filename, to=os.path.basename(new_filename))
        r = super().rename_file(current_filename, new_filename)
        self.sched.emit('fs.renamed', file=os.path.basename(current_filename),
                        to=os.path.basename(new_filename))
        return r

    def is_special_file(self, filename):
        if filename in self.special:
            return True
        return super().is_special_file(filename)

    def allocate(self, filename, size):
        self._site('allocate', filename, size=size)
        return super().allocate(filename, size)


# ---------------------------------------------------------------------------
# user-supplied streams
# ---------------------------------------------------------------------------

class SourceStream:
    """Readable user stream for uploads; records every read/seek."""

    def __init__(self, sched, data, seekable=True, start=0, short=None, name='src',
                 fault=False):
        self._s = sched
        self._b = io.BytesIO(data)
        self._b.seek(start)
        self._seekable = seekable
        self._short = short         # read(n) returns at most this many bytes (a raw, unbuffered stream)
        self.start = start
        self.ops = []
        self.min_pos_seen = start
        self.name = name
        self._fault = fault
        self.bytes_read = 0
        self.track = False          # observe which chunks handed to the library are still referenced
        self.handed = []
        self.max_alive = 0

    def readable(self):
        return True

    def seekable(self):
        return self._seekable

    def _alive(self):
        """how many of the chunks handed out so far something still holds on to (the list
        `handed`, the loop variable and getrefcount's argument account for 3 references)"""
        import gc
        import sys
        gc.collect()
        return sum(1 for c in self.handed if sys.getrefcount(c) > 3)

    def read(self, n=-1):
        s = self._s
        s.point('src.read', self.name)
        if self._fault and s.choose(2, 'src:read'):
            e = InjectedReadError('injected source read fault')
            s.user.setdefault('injected', []).append(
                {'exc': e, 'label': 'src:read', 'retryable': False, 'step': s.step})
            s.emit('fault', label='src:read', exc='InjectedReadError', retryable=False)
            raise e
        if n is None:
            n = -1
        pos = self._b.tell()
        d = self._b.read(n if not self._short or (0 <= n <= self._short) else self._short)
        self.ops.append(('read', pos, n, len(d)))
        self.bytes_read += len(d)
        if self.track:
            alive = self._alive()
            if alive > self.max_alive:
                self.max_alive = alive
            s.emit('src.read', name=self.name, pos=pos, n=len(d), alive=alive)
            if len(d) > 1:              # (0- and 1-byte objects are interpreter-wide singletons)
                d = bytes(bytearray(d))  # a fresh object of our own
                self.handed.append(d)
            return d
        s.emit('src.read', name=self.name, pos=pos, n=len(d))
        return d

    def seek(self, where, whence=0):
        if not self._seekable:
            raise io.UnsupportedOperation('seek')
        r = self._b.seek(where, whence)
        self.ops.append(('seek', where, whence, r))
        if r < self.min_pos_seen:
            self.min_pos_seen = r
        return r

    def tell(self):
        if not self._seekable:
            raise io.UnsupportedOperation('tell')
        return self._b.tell()

    def close(self):
        self.ops.append(('close',))


class SinkStream:
    """Writable user stream for downloads; records every write with offset."""

    def __init__(self, sched, seekable=True, name='sink', fault=False, initial=b''):
        self._s = sched
        self._seekable = seekable
        self.name = name
        self._buf = bytearray(initial)
        self._pos = 0
        self.writes = []          # (offset, bytes)
        self._fault = fault
        self.active_writers = 0
        self.max_writers = 0
        self.closed = False

    def writable(self):
        return True

    def seekable(self):
        return self._seekable

    def write(self, data):
        s = self._s
        self.active_writers += 1
        if self.active_writers > self.max_writers:
            self.max_writers = self.active_writers
        try:
            s.point('sink.write', self.name)
            k = s.choose(3, 'sink:write') if self._fault else 0
            if k:
                e = (InjectedBrokenPipe if k == 2 else InjectedOSError)('injected sink write fault')
                s.user.setdefault('injected', []).append(
                    {'exc': e, 'label': 'sink:write', 'retryable': False, 'step': s.step})
                s.emit('fault', label='sink:write', exc='InjectedOSError', retryable=False)
                raise e
            off = self._pos
            self.writes.append((off, bytes(data)))
            end = off + len(data)
            if len(self._buf) < end:
                self._buf.extend(b'\0' * (end - len(self._buf)))
            self._buf[off:end] = data
            self._pos = end
            s.emit('sink.write', name=self.name, off=off, n=len(data))
            return len(data)
        finally:
            self.active_writers -= 1

    def seek(self, where, whence=0):
        if not self._seekable:
            raise io.UnsupportedOperation('seek')
        if whence == 0:
            self._pos = where
        elif whence == 1:
            self._pos += where
        else:
            self._pos = len(self._buf) + where
        return self._pos

    def tell(self):
        if not self._seekable:
            raise io.UnsupportedOperation('tell')
        return self._pos

    def close(self):
        self.closed = True

    def getvalue(self):
        return bytes(self._buf)

    def concatenation(self):
        return b''.join(d for _, d in self.writes)

    def __enter__(self):
        return self

    def __exit__(self, *a):
        self.close()

    @property
    def name_(self):
        return self.name
