"""Fake S3 service + validating fake client, driven by a Sched.

The client validates every call against the installed botocore S3 service model
(so an argument unknown to an operation fails as with the real client), records
begin/end events with the scheduler step, drives request bodies by the body
protocol recorded from real botocore (see botoproto.py) and lets the explorer
choose faults / short reads / client-level retries through `sched.choose`.
"""
import re
import botocore.session
import botocore.validate
from botocore.exceptions import (
    ClientError, IncompleteReadError, ReadTimeoutError, ResponseStreamingError,
    ParamValidationError)
from botocore.httpchecksum import AwsChunkedWrapper

_MODEL = None


def service_model():
    global _MODEL
    if _MODEL is None:
        _MODEL = botocore.session.get_session().get_service_model('s3')
    return _MODEL


_OPS = {
    'head_object': 'HeadObject', 'get_object': 'GetObject',
    'put_object': 'PutObject', 'delete_object': 'DeleteObject',
    'copy_object': 'CopyObject',
    'create_multipart_upload': 'CreateMultipartUpload',
    'upload_part': 'UploadPart', 'upload_part_copy': 'UploadPartCopy',
    'complete_multipart_upload': 'CompleteMultipartUpload',
    'abort_multipart_upload': 'AbortMultipartUpload',
}

_VALIDATOR = botocore.validate.ParamValidator()


class InjectedClientError(ClientError):
    """A non-retryable service error injected by the harness."""

    def __init__(self, op, tag):
        super().__init__({'Error': {'Code': 'InjectedFault', 'Message': tag},
                          'ResponseMetadata': {}}, op)
        self.tag = tag


class InjectedOSError(OSError):
    pass


class InjectedBrokenPipe(BrokenPipeError):
    """a destination write failing with an exception of the ConnectionError family
    (what a pipe / socket backed output raises); still a write failure, never retryable"""


class InjectedReadError(Exception):
    """non-retryable error while reading a source / stream"""


def make_retryable(kind, tag):
    if kind == 0:
        return IncompleteReadError(actual_bytes=1, expected_bytes=2)
    if kind == 1:
        return ReadTimeoutError(endpoint_url='https://fake/' + tag)
    if kind == 2:
        return ResponseStreamingError(error='injected ' + tag)
    if kind == 3:
        return ConnectionResetError('injected ' + tag)
    import socket
    return socket.timeout('injected ' + tag)


N_RETRYABLE_KINDS = 5


class FakeRequest:
    def __init__(self, body):
        self.body = body
        self.context = {}
        self.headers = {}


class FakeEvents:
    """Minimal hierarchical emitter (first / middle / last)."""

    def __init__(self):
        self._first, self._mid, self._last = [], [], []
        self._ids = {}
        self.registrations = []

    def _reg(self, lst, event_name, handler, unique_id):
        self.registrations.append((event_name, getattr(handler, '__name__', '?'), unique_id))
        if unique_id is not None:
            if unique_id in self._ids:
                return
            self._ids[unique_id] = handler
        lst.append((event_name, handler))

    def register(self, event_name, handler, unique_id=None, **kw):
        self._reg(self._mid, event_name, handler, unique_id)

    def register_first(self, event_name, handler, unique_id=None, **kw):
        self._reg(self._first, event_name, handler, unique_id)

    def register_last(self, event_name, handler, unique_id=None, **kw):
        self._reg(self._last, event_name, handler, unique_id)

    def unregister(self, event_name, handler=None, unique_id=None, **kw):
        for lst in (self._first, self._mid, self._last):
            lst[:] = [(e, h) for (e, h) in lst if not (e == event_name and (
                h is handler or (unique_id and self._ids.get(unique_id) is h)))]
        if unique_id:
            self._ids.pop(unique_id, None)

    @staticmethod
    def _match(pattern, name):
        pp = pattern.split('.')
        nn = name.split('.')
        if len(pp) > len(nn):
            return False
        for a, b in zip(pp, nn):
            if a != '*' and a != b:
                return False
        return True

    def emit_phase(self, phase, name, **kwargs):
        lst = {'first': self._first, 'mid': self._mid, 'last': self._last}[phase]
        for pat, h in list(lst):
            if self._match(pat, name):
                h(**kwargs)


class _Cfg:
    def __init__(self, rcc):
        self.request_checksum_calculation = rcc
        self.response_checksum_validation = 'when_supported'
        self.user_agent_extra = None


class _Meta:
    def __init__(self, rcc):
        self.events = FakeEvents()
        self.config = _Cfg(rcc)
        self.region_name = 'us-west-2'
        self.service_model = service_model()


def parse_range(rng, size):
    m = re.fullmatch(r'bytes=(\d+)-(\d*)', rng)
    if not m:
        raise ValueError(f'bad range {rng!r}')
    start = int(m.group(1))
    end = int(m.group(2)) if m.group(2) != '' else size - 1
    end = min(end, size - 1)
    return start, end


class FakeS3:
    """Service state shared by all clients of one execution."""

    def __init__(self, sched):
        self.sched = sched
        self.objects = {}
        self.uploads = {}
        self.calls = []
        self.anomalies = []
        self._n_upload = 0
        self._n_etag = 0
        self.inflight = {}
        self.max_inflight = {}

    def put(self, bucket, key, data):
        self.objects[(bucket, key)] = bytes(data)

    def new_etag(self, tag):
        self._n_etag += 1
        return f'"e{self._n_etag}-{tag}"'


class FaultPlan:
    """What the environment may do wrong; every option is a `choose` site.

    sites: set of labels enabled, among
      's3:<Op>:before', 's3:<Op>:after' (fault before / after the effect),
      'stream:retryable', 'stream:fatal', 'stream:short',
      'body:retry' (client-level retry re-reading an upload body),
      'body:short' (short body reads)
    A label may be given as a prefix ('s3:' enables all S3 call faults).
    """

    def __init__(self, sites=(), retryable_kinds=(0,), short_sizes=(1,),
                 max_body_retries=1, only_ops=None, only_keys=None, fatal_kinds=('read',)):
        self.fatal_kinds = tuple(fatal_kinds)     # 'read': a plain Exception; 'oserror': an OSError that is no connection error
        self.sites = tuple(sites)
        self.retryable_kinds = tuple(retryable_kinds)
        self.short_sizes = tuple(short_sizes)
        self.max_body_retries = max_body_retries
        self.only_ops = only_ops
        self.only_keys = only_keys

    def key_ok(self, rec):
        if self.only_keys is None:
            return True
        return rec['kwargs'].get('Key') in self.only_keys

    def on(self, label):
        for s in self.sites:
            if label.startswith(s):
                return True
        return False


NO_FAULTS = FaultPlan()


class FakeStreamingBody:
    def __init__(self, client, data, rec):
        self._c = client
        self._data = data
        self._pos = 0
        self._rec = rec
        self.reads = 0

    def read(self, amt=None):
        c = self._c
        s = c.sched
        plan = c.plan
        s.point('stream.read', self._rec['id'])
        left = len(self._data) - self._pos
        if amt is None or amt < 0:
            amt = left
        n = min(amt, left)
        if plan.on('stream:retryable') and plan.key_ok(self._rec):
            k = s.choose(1 + len(plan.retryable_kinds), 'stream:retryable')
            if k:
                e = make_retryable(plan.retryable_kinds[k - 1], self._rec['id'])
                c.note_injected(e, 'stream:retryable', self._rec, retryable=True)
                raise e
        if plan.on('stream:fatal') and plan.key_ok(self._rec):
            k = s.choose(1 + len(plan.fatal_kinds), 'stream:fatal')
            if k:
                if plan.fatal_kinds[k - 1] == 'oserror':
                    e = InjectedOSError(5, 'injected EIO while reading the stream of ' + self._rec['id'])
                else:
                    e = InjectedReadError('stream fatal ' + self._rec['id'])
                c.note_injected(e, 'stream:fatal', self._rec, retryable=False)
                raise e
        pat = c.stream_pattern
        if pat == 'one' and n > 1:
            n = 1
        elif pat == 'alt' and n > 1 and self.reads % 2 == 0:
            n = 1
        elif pat == 'short1' and n > 1 and self.reads == 0:
            n = n - 1
        if plan.on('stream:short') and n > 1:
            opts = [z for z in plan.short_sizes if z < n]
            if opts:
                k = s.choose(1 + len(opts), 'stream:short')
                if k:
                    n = opts[k - 1]
        out = self._data[self._pos:self._pos + n]
        self._pos += n
        self.reads += 1
        self._rec.setdefault('stream_bytes', 0)
        self._rec['stream_bytes'] += n
        s.emit('stream.read', call=self._rec['id'], n=n, pos=self._pos)
        return out

    def close(self):
        pass


class FakeClient:
    """Stand-in for a botocore S3 client."""

    def __init__(self, s3, sched, plan=NO_FAULTS, rcc='when_required',
                 body_read_size=None, name='client', validate=True,
                 body_protocols=None, stream_pattern='full', http=False):
        self.send_think = 0         # virtual seconds the "socket" waits before each send read
        self.http = http            # plain-http endpoint: checksum in a header, computed before the request exists
        self.s3 = s3
        self.sched = sched
        self.plan = plan
        self.meta = _Meta(rcc)
        self.name = name
        self.validate = validate
        self.body_read_size = body_read_size
        self.injected = []
        self.body_protocols = body_protocols
        self.stream_pattern = stream_pattern
        self.plan_only = False      # record requests, move no bytes (real-scale planning)
        self.virtual_sizes = {}

    # ------------------------------------------------------------ plumbing
    def note_injected(self, exc, label, rec, retryable):
        self.injected.append({'exc': exc, 'label': label, 'call': rec['id'],
                              'op': rec['op'], 'retryable': retryable,
                              'step': self.sched.step})
        self.sched.emit('fault', label=label, call=rec['id'], op=rec['op'],
                        exc=type(exc).__name__, retryable=retryable)

    def _validate(self, opname, kwargs):
        if not self.validate:
            return
        shape = service_model().operation_model(opname).input_shape
        if isinstance(kwargs.get('CopySource'), dict):
            # botocore's handle_copy_source_param turns the dict form into a string
            # before validation
            cs = kwargs['CopySource']
            bad = [k for k in cs if k not in ('Bucket', 'Key', 'VersionId')]
            if bad or 'Bucket' not in cs or 'Key' not in cs:
                raise ParamValidationError(report=f'bad CopySource dict {cs}')
            kwargs = dict(kwargs, CopySource=f"{cs['Bucket']}/{cs['Key']}")
        report = _VALIDATOR.validate(kwargs, shape)
        if report.has_errors():
            self.s3.anomalies.append(('param-validation', opname, report.generate_report()))
            raise ParamValidationError(report=report.generate_report())

    def _begin(self, pyname, kwargs):
        opname = _OPS[pyname]
        s = self.sched
        self._validate(opname, kwargs)
        s3 = self.s3
        rec = {'id': f'c{len(s3.calls)}', 'op': opname, 'client': self.name,
               'kwargs': {k: v for k, v in kwargs.items() if k != 'Body'},
               'begin': None, 'end': None, 'outcome': None,
               'thread': s.current.id if s.current is not None else -1,
               'tname': s.current.name if s.current is not None else 'inline'}
        s3.calls.append(rec)
        s.point('s3.begin', opname)
        rec['begin'] = s.step
        s3.inflight[opname] = s3.inflight.get(opname, 0) + 1
        s.emit('s3.begin', call=rec['id'], op=opname,
               key=kwargs.get('Key'), part=kwargs.get('PartNumber'),
               upload=kwargs.get('UploadId'), range=kwargs.get('Range') or kwargs.get('CopySourceRange'))
        return rec

    def _fault(self, rec, when):
        label = f"s3:{rec['op']}:{when}"
        plan = self.plan
        if when == 'before' and rec['op'] == 'GetObject' and plan.on('s3call:GetObject:retryable') and plan.key_ok(rec):
            if self.sched.choose(2, 's3call:GetObject:retryable'):
                e = make_retryable(plan.retryable_kinds[0], rec['id'])
                self.note_injected(e, 's3call:GetObject:retryable', rec, retryable=True)
                raise e
        if plan.on(label) and (plan.only_ops is None or rec['op'] in plan.only_ops) and plan.key_ok(rec):
            if self.sched.choose(2, label):
                e = InjectedClientError(rec['op'], f"{rec['id']}:{when}")
                self.note_injected(e, label, rec, retryable=False)
                raise e

    def _end(self, rec, outcome='ok'):
        s = self.sched
        # the response travels back: other threads may run meanwhile
        try:
            s.point('s3.end', rec['op'])
        finally:
            rec['end'] = s.step
            rec['outcome'] = outcome
            self.s3.inflight[rec['op']] -= 1
            s.emit('s3.end', call=rec['id'], op=rec['op'], outcome=outcome)

    def _run(self, pyname, kwargs, effect):
        rec = self._begin(pyname, kwargs)
        try:
            self._fault(rec, 'before')
            r = effect(rec)
            self._fault(rec, 'after')
        except BaseException as e:
            self._end(rec, outcome=type(e).__name__)
            raise
        self._end(rec)
        return r

    # ---------------------------------------------------------- operations
    def head_object(self, **kw):
        def eff(rec):
            if self.plan_only:
                return {'ContentLength': self.virtual_sizes[kw['Key']], 'ETag': '"obj"'}
            data = self._get_obj(kw['Bucket'], kw['Key'])
            return {'ContentLength': len(data), 'ETag': '"obj"'}
        return self._run('head_object', kw, eff)

    def _get_obj(self, bucket, key):
        try:
            return self.s3.objects[(bucket, key)]
        except KeyError:
            raise ClientError({'Error': {'Code': 'NoSuchKey', 'Message': key}}, 'GetObject')

    def get_object(self, **kw):
        def eff(rec):
            if self.plan_only:
                return {'Body': FakeStreamingBody(self, b'', rec), 'ContentLength': 0}
            data = self._get_obj(kw['Bucket'], kw['Key'])
            rng = kw.get('Range')
            if rng is not None:
                if len(data) == 0:
                    part = b''
                else:
                    a, b = parse_range(rng, len(data))
                    part = data[a:b + 1]
                    rec['range'] = (a, b)
            else:
                part = data
                rec['range'] = (0, len(data) - 1)
            return {'Body': FakeStreamingBody(self, part, rec),
                    'ContentLength': len(part)}
        return self._run('get_object', kw, eff)

    def delete_object(self, **kw):
        def eff(rec):
            self.s3.objects.pop((kw['Bucket'], kw['Key']), None)
            return {}
        return self._run('delete_object', kw, eff)

    def _copy_source_bytes(self, kw):
        src = kw['CopySource']
        if isinstance(src, dict):
            b, k = src['Bucket'], src['Key']
        else:
            b, k = src.split('/', 1)
        return self._get_obj(b, k)

    def copy_object(self, **kw):
        def eff(rec):
            if self.plan_only:
                return {'CopyObjectResult': {'ETag': self.s3.new_etag('copy')}}
            data = self._copy_source_bytes(kw)
            self.s3.put(kw['Bucket'], kw['Key'], data)
            return {'CopyObjectResult': {'ETag': self.s3.new_etag('copy')}}
        return self._run('copy_object', kw, eff)

    def put_object(self, **kw):
        def eff(rec):
            if self.plan_only:
                rec['body_len'] = len(kw['Body'])
                return {'ETag': self.s3.new_etag('put')}
            data = self._drive_body('PutObject', kw.get('Body'), rec)
            self.s3.put(kw['Bucket'], kw['Key'], data)
            rec['body_len'] = len(data)
            return {'ETag': self.s3.new_etag('put')}
        return self._run('put_object', kw, eff)

    def create_multipart_upload(self, **kw):
        def eff(rec):
            s3 = self.s3
            s3._n_upload += 1
            uid = f'upload-{s3._n_upload}'
            s3.uploads[uid] = {
                'id': uid, 'bucket': kw['Bucket'], 'key': kw['Key'],
                'parts': {}, 'state': 'open', 'completes': 0, 'aborts': 0,
                'create_kwargs': dict(kw), 'log': [],
                'algo': kw.get('ChecksumAlgorithm'),
                'ctype': kw.get('ChecksumType'),
            }
            rec['upload'] = uid
            return {'UploadId': uid}
        return self._run('create_multipart_upload', kw, eff)

    def _upload(self, uid, op):
        up = self.s3.uploads.get(uid)
        if up is None:
            raise ClientError({'Error': {'Code': 'NoSuchUpload', 'Message': str(uid)}}, op)
        return up

    def upload_part(self, **kw):
        def eff(rec):
            up = self._upload(kw['UploadId'], 'UploadPart')
            rec['upload'] = up['id']
            if self.plan_only:
                rec['body_len'] = len(kw['Body'])
                etag = self.s3.new_etag('p')
                up['parts'][kw['PartNumber']] = {'etag': etag, 'data': b'', 'cs': None, 'algo': None}
                return {'ETag': etag}
            data = self._drive_body('UploadPart', kw.get('Body'), rec)
            if up['state'] != 'open':
                self.s3.anomalies.append(('part-after-finish', up['id'], up['state']))
                raise ClientError({'Error': {'Code': 'NoSuchUpload', 'Message': up['id']}}, 'UploadPart')
            etag = self.s3.new_etag(f"{up['id']}-p{kw['PartNumber']}")
            resp = {'ETag': etag}
            algo = kw.get('ChecksumAlgorithm') or up['algo']
            cs = None
            if algo:
                cs = f'cs-{etag}'
                resp['Checksum' + algo.upper()] = cs
            up['parts'][kw['PartNumber']] = {'etag': etag, 'data': data, 'cs': cs,
                                             'algo': algo.upper() if algo else None}
            rec['body_len'] = len(data)
            return resp
        return self._run('upload_part', kw, eff)

    def upload_part_copy(self, **kw):
        def eff(rec):
            up = self._upload(kw['UploadId'], 'UploadPartCopy')
            rec['upload'] = up['id']
            if self.plan_only:
                etag = self.s3.new_etag('p')
                up['parts'][kw['PartNumber']] = {'etag': etag, 'data': b'', 'cs': None, 'algo': None}
                return {'CopyPartResult': {'ETag': etag}}
            src = self._copy_source_bytes(kw)
            rng = kw.get('CopySourceRange')
            if rng is not None:
                m = re.fullmatch(r'bytes=(\d+)-(\d+)', rng)
                if not m:
                    self.s3.anomalies.append(('bad-copy-range', rng))
                    raise ClientError({'Error': {'Code': 'InvalidArgument', 'Message': rng}}, 'UploadPartCopy')
                a, b = int(m.group(1)), int(m.group(2))
                if b >= len(src) or a > b:
                    self.s3.anomalies.append(('copy-range-out-of-bounds', rng, len(src)))
                    raise ClientError({'Error': {'Code': 'InvalidRange', 'Message': rng}}, 'UploadPartCopy')
                data = src[a:b + 1]
                rec['range'] = (a, b)
            else:
                data = src
            if up['state'] != 'open':
                self.s3.anomalies.append(('part-after-finish', up['id'], up['state']))
                raise ClientError({'Error': {'Code': 'NoSuchUpload', 'Message': up['id']}}, 'UploadPartCopy')
            etag = self.s3.new_etag(f"{up['id']}-p{kw['PartNumber']}")
            res = {'ETag': etag}
            algo = up['algo']
            cs = None
            if algo:
                cs = f'cs-{etag}'
                res['Checksum' + algo.upper()] = cs
            up['parts'][kw['PartNumber']] = {'etag': etag, 'data': data, 'cs': cs,
                                             'algo': algo.upper() if algo else None}
            return {'CopyPartResult': res}
        return self._run('upload_part_copy', kw, eff)

    def complete_multipart_upload(self, **kw):
        def eff(rec):
            up = self._upload(kw['UploadId'], 'CompleteMultipartUpload')
            rec['upload'] = up['id']
            if up['state'] == 'aborted':
                self.s3.anomalies.append(('complete-after-abort', up['id']))
                raise ClientError({'Error': {'Code': 'NoSuchUpload', 'Message': up['id']}}, 'CompleteMultipartUpload')
            parts = kw.get('MultipartUpload', {}).get('Parts', [])
            rec['parts'] = [dict(p) for p in parts]
            body = b''
            for p in parts:
                have = up['parts'].get(p.get('PartNumber'))
                if have is None or have['etag'] != p.get('ETag'):
                    self.s3.anomalies.append(('invalid-part', up['id'], dict(p)))
                    raise ClientError({'Error': {'Code': 'InvalidPart', 'Message': str(p)}}, 'CompleteMultipartUpload')
                body += have['data']
            up['completes'] += 1
            up['state'] = 'completed'
            up['complete_kwargs'] = {k: v for k, v in kw.items()}
            self.s3.put(up['bucket'], up['key'], body)
            return {'ETag': self.s3.new_etag('mpu')}
        return self._run('complete_multipart_upload', kw, eff)

    def abort_multipart_upload(self, **kw):
        def eff(rec):
            up = self._upload(kw['UploadId'], 'AbortMultipartUpload')
            rec['upload'] = up['id']
            up['aborts'] += 1
            if up['state'] == 'completed':
                self.s3.anomalies.append(('abort-after-complete', up['id']))
                raise ClientError({'Error': {'Code': 'NoSuchUpload', 'Message': up['id']}}, 'AbortMultipartUpload')
            up['state'] = 'aborted'
            return {}
        return self._run('abort_multipart_upload', kw, eff)

    # ------------------------------------------------------- body protocol
    def _drive_body(self, opname, body, rec):
        """Consume a request body the way botocore does.

        Protocol (recorded from real botocore by botoproto.py, re-checked at
        every run):
          when_required : [first handlers] tell, read* (checksum/md5), seek(0)
                          [last handlers] read* (send)
          when_supported: body is wrapped in AwsChunkedWrapper before the
                          request-created event; no pre-read; read* (send)
          when_supported over a plain http:// endpoint: the checksum goes into a header and is
                          computed ONCE, before the request-created event of the first attempt:
                          tell, read*, seek(0); after that every attempt looks like when_required
          retry         : seek(0) on the body, then the whole attempt again.
        """
        s = self.sched
        plan = self.plan
        if body is None:
            return b''
        if isinstance(body, (bytes, bytearray)):
            return bytes(body)
        rcc = self.meta.config.request_checksum_calculation
        events = self.meta.events
        evname = f'request-created.s3.{opname}'
        rd = self.body_read_size
        attempts = 0
        reads_log = rec.setdefault('body_ops', [])
        if self.http and rcc == 'when_supported':
            s.emit('body.phase', call=rec['id'], phase='checksum')
            body.tell()
            reads_log.append('tell')
            while True:
                d = body.read(rd) if rd else body.read()
                reads_log.append(('p', len(d)))
                if not d:
                    break
            body.seek(0)
            reads_log.append('seek0')
            rcc = 'when_required'          # the attempts themselves follow that protocol
        while True:
            attempts += 1
            if rcc == 'when_supported':
                req = FakeRequest(AwsChunkedWrapper(body))
            else:
                req = FakeRequest(body)
            events.emit_phase('first', evname, request=req, operation_name=opname)
            s.emit('body.phase', call=rec['id'], phase='checksum')
            if rcc != 'when_supported':
                body.tell()
                reads_log.append('tell')
                while True:
                    d = body.read(rd) if rd else body.read()
                    reads_log.append(('r', len(d)))
                    if not d:
                        break
                    if not rd:
                        # botocore reads in 1 MiB chunks until b''
                        pass
                body.seek(0)
                reads_log.append('seek0')
            events.emit_phase('mid', evname, request=req, operation_name=opname)
            events.emit_phase('last', evname, request=req, operation_name=opname)
            s.emit('body.phase', call=rec['id'], phase='send')
            # send
            data = b''
            retry = False
            # the attempt may fail before a single byte of the body was taken (connection refused,
            # 503 to Expect: 100-continue): botocore rewinds a body it has not read yet
            if plan.on('body:retry') and attempts <= plan.max_body_retries:
                if s.choose(2, 'body:retry'):
                    retry = True
            while not retry:
                if self.send_think:
                    s.sleep(self.send_think, label='socket')      # a slow socket: wire demand below the limit
                s.point('body.read', rec['id'])
                size = rd
                if plan.on('body:short'):
                    k = s.choose(1 + len(plan.short_sizes), 'body:short')
                    if k:
                        size = plan.short_sizes[k - 1]
                d = body.read(size) if size else body.read(1 << 20)
                reads_log.append(('s', len(d)))
                s.emit('body.read', call=rec['id'], n=len(d))
                if plan.on('body:retry') and attempts <= plan.max_body_retries:
                    if s.choose(2, 'body:retry'):
                        retry = True
                        break
                if not d:
                    break
                data += d
            if retry:
                s.emit('body.retry', call=rec['id'], after=len(data))
                rec['body_retries'] = rec.get('body_retries', 0) + 1
                # botocore: request.reset_stream() -> body.seek(0) while
                # callbacks are enabled, then the request is re-created
                if rcc == 'when_supported':
                    req.body.seek(0)
                else:
                    body.seek(0)
                reads_log.append('reset')
                continue
            rec['attempts'] = attempts
            s.emit('body.phase', call=rec['id'], phase='done')
            # the "server" keeps its own copy: reading a whole BytesIO can hand back the very object
            # the library buffered, and holding on to it would look like the library keeping it alive
            return bytes(bytearray(data))
