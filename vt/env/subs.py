"""Recording / re-entrant / raising subscribers."""
from s3transfer.subscribers import BaseSubscriber

from .s3 import InjectedReadError


class CallbackFault(Exception):
    pass


class CallbackOSFault(PermissionError):
    """a user callback failing with an OSError that has nothing to do with connections"""


class RecSub(BaseSubscriber):
    """Records every callback with the scheduler step.

    size        : value to provide through meta.provide_transfer_size in on_queued
    fault_sites : labels among 'cb:queued', 'cb:progress' -> explorer may make
                  the callback raise
    raise_done  : on_done raises (after recording)
    reenter     : {'queued'|'progress'|'done': [actions]} actions among
                  'done','meta','cancel','set_exception','result'
    """

    def __init__(self, world, name='s0', size=None, fault_sites=(), raise_done=False,
                 reenter=None):
        self.w = world
        self.name = name
        self.size = size
        self.fault_sites = tuple(fault_sites)
        self.raise_done = raise_done
        self.reenter = reenter or {}

    def _tid(self, future):
        return future.meta.transfer_id

    def _fault(self, label, future):
        if label in self.fault_sites:
            s = self.w.sched
            kinds = (self.w.scn.get('faults') or {}).get('fatal_kinds', ('read',))
            k = s.choose(1 + len(kinds), label)
            if k:
                e = CallbackFault(f'injected {label}') if kinds[k - 1] != 'oserror' else CallbackOSFault(13, f'injected {label}')
                self.w.injected.append({'exc': e, 'label': label, 'retryable': False,
                                        'step': s.step, 'tid': self._tid(future)})
                s.emit('fault', label=label, exc=type(e).__name__, retryable=False,
                       tid=self._tid(future))
                raise e

    def _reenter(self, phase, future):
        s = self.w.sched
        for act in self.reenter.get(phase, ()):
            s.emit('cb.reenter', phase=phase, act=act, tid=self._tid(future))
            if act == 'done':
                future.done()
            elif act == 'meta':
                future.meta.size  # noqa
                future.meta.call_args  # noqa
            elif act == 'cancel':
                future.cancel()
            elif act == 'set_exception':
                try:
                    future.set_exception(ReenterError('from ' + phase))
                except Exception as e:   # TransferNotDoneError when not done
                    s.emit('cb.reenter.exc', exc=type(e).__name__)
            elif act == 'result':
                try:
                    future.result()
                except Exception:
                    pass

    def on_queued(self, future, **kwargs):
        s = self.w.sched
        s.point('cb.queued', self.name)
        s.emit('cb.queued', tid=self._tid(future), sub=self.name)
        if self.size is not None:
            future.meta.provide_transfer_size(self.size)
        self._reenter('queued', future)
        self._fault('cb:queued', future)

    def on_progress(self, future, bytes_transferred, **kwargs):
        s = self.w.sched
        s.point('cb.progress', self.name)
        s.emit('cb.progress', tid=self._tid(future), sub=self.name, n=bytes_transferred)
        self._reenter('progress', future)
        self._fault('cb:progress', future)

    def on_done(self, future, **kwargs):
        s = self.w.sched
        s.point('cb.done', self.name)
        done = future.done()
        blocked = False
        res = None
        # result() must not block once on_done runs
        with s.nonblocking():
            try:
                future.result()
                res = 'ok'
            except WouldBlock:
                blocked = True
            except BaseException as e:  # noqa
                if type(e).__name__ == 'AbortExecution':
                    raise
                res = type(e).__name__
        s.emit('cb.done', tid=self._tid(future), sub=self.name, done=done,
               blocked=blocked, res=res)
        self._reenter('done', future)
        s.emit('cb.done.end', tid=self._tid(future), sub=self.name)
        if self.raise_done:
            raise CallbackFault('on_done raises')


class ReenterError(Exception):
    pass


from ..detsched import WouldBlock  # noqa: E402
