"""Stateless, deviation-bounded exhaustive exploration with prefix replay.

`run_one(prefix) -> Exec` runs one execution of a closed harness on the real
code under the choice prefix (default choice 0 afterwards), applies the oracles
and returns what happened.  `explore` enumerates every choice sequence whose
deviation cost is within the bound.
"""
import os
import time
import json
import hashlib
import multiprocessing as mp


class Exec:
    __slots__ = ('decisions', 'outcome', 'detail', 'steps', 'violations',
                 'signature', 'digest', 'sample', 'extra', 'known')

    def __init__(self):
        self.decisions = []      # list of (n, chosen, kind, running_enabled, label)
        self.outcome = None
        self.detail = None
        self.steps = 0
        self.violations = []     # list of dict(prop, clause, msg)
        self.known = []          # violations matched by known_findings
        self.signature = None    # hashable outcome signature (non-vacuity)
        self.digest = None
        self.sample = None
        self.extra = {}

    def choices(self):
        return [d[1] for d in self.decisions]


def cost_class(dec, alt, forced_cost=0):
    """(class, cost) of taking alternative `alt` (!=0) at decision `dec`.

    classes: 'sched' (preemptions; forced switches cost `forced_cost`),
             'env'   (environment deviations: faults, short reads, retries),
             'inject' (placement of an injected cancel / Ctrl-C thread)."""
    n, chosen, kind, running_enabled, label = dec[:5]
    if alt == 0:
        return 'sched', 0
    if kind == 'sched':
        inj = dec[5] if len(dec) > 5 else ()
        if alt in inj:
            return 'inject', 1
        return 'sched', (1 if running_enabled else forced_cost)
    if label.startswith('free:'):
        return 'env', 0
    return 'env', 1


def _norm_bound(bound):
    if isinstance(bound, dict):
        return dict(bound)
    return {'total': bound}


def _within(cost, bound):
    if 'total' in bound:
        return sum(cost.values()) <= bound['total']
    for k, v in cost.items():
        if v > bound.get(k, 0):
            return False
    return True


class Stats:
    def __init__(self):
        self.executions = 0
        self.states = 0          # decision nodes of the explored tree
        self.transitions = 0     # scheduler steps executed
        self.signatures = {}
        self.violations = []     # (choices, violation dict)
        self.known = {}
        self.caps_hit = []
        self.outcomes = {}
        self.max_decisions = 0
        self.samples = []
        self.bound = None
        self.wall = 0.0
        self.max_threads = 0
        self.counters = {}
        self.maxima = {}
        self.root_exec = None

    def merge(self, o):
        for k, v in o.counters.items():
            self.counters[k] = self.counters.get(k, 0) + v
        for k, v in o.maxima.items():
            if v > self.maxima.get(k, -1):
                self.maxima[k] = v
        self.executions += o.executions
        self.states += o.states
        self.transitions += o.transitions
        for k, v in o.signatures.items():
            self.signatures[k] = self.signatures.get(k, 0) + v
        self.violations.extend(o.violations)
        for k, v in o.known.items():
            self.known[k] = self.known.get(k, 0) + v
        self.caps_hit.extend(o.caps_hit)
        for k, v in o.outcomes.items():
            self.outcomes[k] = self.outcomes.get(k, 0) + v
        self.max_decisions = max(self.max_decisions, o.max_decisions)
        self.max_threads = max(self.max_threads, o.max_threads)
        if len(self.samples) < 6:
            self.samples.extend(o.samples[:6 - len(self.samples)])
        self.wall += o.wall

    def to_dict(self):
        return {
            'executions': self.executions, 'states': self.states,
            'transitions': self.transitions,
            'distinct_outcomes': len(self.signatures),
            'outcomes': self.outcomes, 'caps_hit': self.caps_hit,
            'max_decisions': self.max_decisions,
            'violations': len(self.violations),
        }


def explore(run_one, bound, forced_cost=0, max_execs=None, seed=0,
            max_violations=3, root_prefix=(), deadline=None, keep_samples=2,
            root_cost=None, root_only=False):
    """Enumerate all choice sequences with deviation cost <= bound."""
    st = Stats()
    st.bound = bound
    bound = _norm_bound(bound)
    t0 = time.time()
    # stack entries: (prefix, cost_of_prefix per class)
    stack = [(list(root_prefix), dict(root_cost or {}))]
    while stack:
        if max_execs is not None and st.executions >= max_execs:
            st.caps_hit.append(f'max_execs={max_execs} (frontier {len(stack)} left)')
            break
        if deadline is not None and time.time() > deadline:
            st.caps_hit.append(f'deadline (frontier {len(stack)} left)')
            break
        prefix, pcost = stack.pop()
        x = run_one(prefix)
        st.executions += 1
        st.transitions += x.steps
        st.outcomes[x.outcome] = st.outcomes.get(x.outcome, 0) + 1
        nd = len(x.decisions)
        if x.choices()[:len(prefix)] != list(prefix):
            raise RuntimeError(
                f'replay divergence: prefix {prefix} became {x.choices()[:len(prefix)]} '
                f'(harness nondeterminism)')
        st.max_decisions = max(st.max_decisions, nd)
        st.states += max(nd - len(prefix), 0) + (1 if not prefix else 0)
        if x.signature is not None:
            st.signatures[x.signature] = st.signatures.get(x.signature, 0) + 1
        for k in ('inject_effective', 'inject_ran', 'n_injected'):
            if x.extra.get(k):
                st.counters[k] = st.counters.get(k, 0) + 1
        for k, v in (x.extra.get('user') or {}).items():
            if isinstance(v, (int, float)):
                if v > st.maxima.get(k, -1):
                    st.maxima[k] = v
            elif isinstance(v, dict):
                for kk, vv in v.items():
                    if vv > st.maxima.get(f'{k}.{kk}', -1):
                        st.maxima[f'{k}.{kk}'] = vv
        if x.extra.get('max_threads', 0) > st.max_threads:
            st.max_threads = x.extra['max_threads']
        if len(st.samples) < keep_samples and x.sample is not None:
            st.samples.append({'choices': x.choices(), 'outcome': x.outcome,
                               'case': x.sample})
        for k in x.known:
            st.known[k] = st.known.get(k, 0) + 1
        if x.violations:
            for v in x.violations:
                st.violations.append((x.choices(), v))
            if len(st.violations) >= max_violations:
                st.caps_hit.append('stopped at first violations')
                break
        if root_only:
            st.root_exec = x
            break
        # children
        cost = pcost
        ch = x.choices()
        kids = []
        for i in range(len(prefix), nd):
            d = x.decisions[i]
            n = d[0]
            for alt in range(1, n):
                cls, cc = cost_class(d, alt, forced_cost)
                c = dict(cost)
                if cc:
                    c[cls] = c.get(cls, 0) + cc
                if _within(c, bound):
                    kids.append((ch[:i] + [alt], c))
            # decisions after the prefix all took the default (cost 0)
        if seed and kids:
            r = seed % len(kids)
            kids = kids[r:] + kids[:r]
        # explore low-cost (fewest deviations) first: sort stable by cost desc
        kids.sort(key=lambda kc: -sum(kc[1].values()))
        stack.extend(kids)
    st.wall = time.time() - t0
    return st


# ---------------------------------------------------------------------------
# parallel fan-out of independent jobs
# ---------------------------------------------------------------------------

class JobError(Exception):
    pass


def _job_runner(args):
    fn, job = args
    try:
        return fn(job)
    except BaseException as e:  # noqa  - never let a worker die silently (the pool would hang)
        import traceback
        return JobError(f'{type(e).__name__}: {e}\n{traceback.format_exc()[-2500:]} job={str(job)[:300]}')


def run_jobs(fn, jobs, nproc=None, chunksize=1):
    """Run fn(job) for every job on a pool of long-lived worker processes.

    fn must be a top-level function; returns results in job order."""
    jobs = list(jobs)
    if nproc is None:
        nproc = min(os.cpu_count() or 1, 16)
    if os.environ.get('VERIF_NPROC'):
        nproc = int(os.environ['VERIF_NPROC'])
    if nproc <= 1 or len(jobs) <= 1:
        return [fn(j) for j in jobs]
    ctx = mp.get_context('fork')
    with ctx.Pool(min(nproc, len(jobs))) as pool:
        res = pool.map(_job_runner, [(fn, j) for j in jobs], chunksize)
    for r in res:
        if isinstance(r, JobError):
            raise r
    return res


def sig_hash(obj):
    return hashlib.sha1(repr(obj).encode()).hexdigest()[:12]


def first_level(x, bound, forced_cost):
    """children of the root execution x: list of (prefix, cost)"""
    bound = _norm_bound(bound)
    kids = []
    ch = x.choices()
    for i, d in enumerate(x.decisions):
        for alt in range(1, d[0]):
            cls, cc = cost_class(d, alt, forced_cost)
            c = {cls: cc} if cc else {}
            if _within(c, bound):
                kids.append((ch[:i] + [alt], c))
    return kids
