"""Closed harnesses around the real s3transfer objects.

A *scenario* is plain data (JSON-able dict), so a violating execution is fully
described by (scenario, choice sequence) and can be replayed from a file.
"""
import functools
import os
import random
import sys

import s3transfer
import s3transfer.bandwidth
import s3transfer.copies
import s3transfer.download
import s3transfer.futures
import s3transfer.manager
import s3transfer.upload
import s3transfer.utils
from s3transfer.exceptions import CancelledError, FatalError
from s3transfer.futures import NonThreadedExecutor
from s3transfer.manager import TransferConfig, TransferManager
from s3transfer.utils import ChunksizeAdjuster as _RealAdjuster

from . import detsched, statereset
from .detsched import Sched, SHIM, DetExecutor, AbortExecution
from .env.s3 import FakeS3, FakeClient, FaultPlan
from .env.fs import FaultyOSUtils, ScratchDir, SourceStream, SinkStream  # noqa: F401
from .env.subs import RecSub

_REPO = os.environ.get('VERIF_REPO') or '/repo'
assert os.path.realpath(s3transfer.__file__).startswith(os.path.realpath(_REPO) + '/'), s3transfer.__file__

_PATCHED = [s3transfer.futures, s3transfer.utils, s3transfer.download,
            s3transfer.manager, s3transfer.bandwidth]


def install():
    """Bind the controlled primitives into the s3transfer modules (idempotent)."""
    import s3transfer.tasks, s3transfer.delete, s3transfer.subscribers, s3transfer.compat, s3transfer.constants  # noqa
    statereset.register(s3transfer, s3transfer.futures, s3transfer.utils, s3transfer.download, s3transfer.manager,
                        s3transfer.bandwidth, s3transfer.upload, s3transfer.copies, s3transfer.tasks, s3transfer.delete,
                        s3transfer.subscribers, s3transfer.compat, s3transfer.constants)
    for m in _PATCHED:
        m.threading = SHIM
    s3transfer.bandwidth.time = _TimeShim()
    _install_hashes()
    _install_bw_probe()
    import logging
    logging.disable(logging.CRITICAL)


def _install_bw_probe():
    # observation only: mark the beginning of every read() of a throttled stream in the trace
    cls = s3transfer.bandwidth.BandwidthLimitedStream
    if getattr(cls.read, '_vt_probe', False):
        return
    orig = cls.read

    def read(self, amount):
        sch = detsched.active()
        if sch is not None and not sch.inline and sch.current is not None:
            sch.emit('bw.read', amount=amount, enabled=self._bandwidth_limiting_enabled)
        return orig(self, amount)
    read._vt_probe = True
    cls.read = read
    bcls = s3transfer.bandwidth.LeakyBucket
    orig_consume = bcls.consume

    def consume(self, amt, request_token):
        r = orig_consume(self, amt, request_token)
        sch = detsched.active()
        if sch is not None and not sch.inline and sch.current is not None:
            sch.emit('bw.charge', amt=amt)
        return r
    bcls.consume = consume


class _TimeShim:
    def time(self):
        return detsched.active().time()

    def sleep(self, v):
        return detsched.active().sleep(v)


def _seq_hash(self):
    h = self.__dict__.get('_vt_h')
    if h is None:
        s = detsched.active()
        if s is None:
            return id(self) >> 4
        n = s.user.get('hash_seq', 0) + 1
        s.user['hash_seq'] = n
        h = n
        self.__dict__['_vt_h'] = h
    return h


def _install_hashes():
    # sets of id-hashed objects are iterated by the library; give them a
    # creation-sequence hash so iteration order is owned by the harness
    s3transfer.futures.ExecutorFuture.__hash__ = _seq_hash
    s3transfer.futures.TransferCoordinator.__hash__ = _seq_hash


def set_adjuster(adj):
    """Scale S3's part limits (as the repo's functional tests do)."""
    if adj is None:
        s3transfer.upload.ChunksizeAdjuster = _RealAdjuster
        s3transfer.copies.ChunksizeAdjuster = _RealAdjuster
    else:
        f = functools.partial(_RealAdjuster, **adj)
        s3transfer.upload.ChunksizeAdjuster = f
        s3transfer.copies.ChunksizeAdjuster = f


_RealAgg = s3transfer.upload.AggregatedProgressCallback


def set_progress_threshold(thr):
    """Scale the 256 KiB progress aggregation threshold for tiny bodies."""
    if thr is None:
        s3transfer.upload.AggregatedProgressCallback = _RealAgg
    else:
        s3transfer.upload.AggregatedProgressCallback = functools.partial(_RealAgg, threshold=thr)


_RealBLS = s3transfer.bandwidth.BandwidthLimitedStream


def set_bw_threshold(thr):
    """Scale the 256 KiB consume threshold of bandwidth limited streams."""
    if thr is None:
        s3transfer.bandwidth.BandwidthLimitedStream = _RealBLS
    else:
        s3transfer.bandwidth.BandwidthLimitedStream = functools.partial(_RealBLS, bytes_threshold=thr)


SHARED_FIELDS = {
    'TransferCoordinator': (s3transfer.futures.TransferCoordinator,
                            ('_status', '_exception', '_result')),
}


def set_shared_fields(on, reads=True):
    cls, names = SHARED_FIELDS['TransferCoordinator']
    if on:
        detsched.install_shared_fields(cls, names, reads=reads)
    else:
        detsched.uninstall_shared_fields(cls, names)


def payload(n, seed=0, salt=0):
    """Position-dependent bytes: gaps, overlaps and swaps all change content."""
    return bytes(((i * 7 + 13 * (i // 5) + seed * 31 + salt * 17) % 251) + 1 for i in range(n))


BUCKET = 'bkt'


class World:
    def __init__(self, sched, scn, scratch):
        self.sched = sched
        self.scn = scn
        self.scratch = scratch
        self.s3 = FakeS3(sched)
        self.injected = []
        self.futures = []
        self.outcomes = {}
        self.transfers = []
        self.manager = None
        self.client = None
        self.osutil = None
        self.user_events = []
        self.script_done = False
        self.script_exc = None
        self.subs = {}

    # all injected faults, whoever injected them
    def all_injected(self):
        out = list(self.injected)
        out += self.client.injected if self.client else []
        if getattr(self, 'source_client', None) is not None and self.source_client is not self.client:
            out += self.source_client.injected
        out += self.osutil.injected if self.osutil else []
        out += self.sched.user.get('injected', [])
        return out


def _victim_keys(scn):
    f = scn.get('faults') or {}
    v = f.get('only_key')
    if v is None:
        return None
    t = scn['transfers'][v]
    keys = set()
    if t['op'] == 'upload':
        keys.add(t.get('key', f'up{v}'))
    elif t['op'] == 'copy':
        keys.add(t.get('key', f'cp{v}'))
        keys.add(t['src_key'])
    else:
        keys.add(t['key'])
    return keys


def _fault_plan(f, scn=None):
    if not f:
        return FaultPlan()
    return FaultPlan(only_keys=_victim_keys(scn) if scn else None,sites=f.get('sites', ()),
                     retryable_kinds=tuple(f.get('retryable_kinds', (0,))),
                     short_sizes=tuple(f.get('short_sizes', (1,))),
                     max_body_retries=f.get('max_body_retries', 1),
                     fatal_kinds=tuple(f.get('fatal_kinds', ('read',))),
                     only_ops=f.get('only_ops'))


def build_manager(w):
    scn = w.scn
    sched = w.sched
    seed = scn.get('seed', 0)
    faults = scn.get('faults') or {}
    plan = _fault_plan(faults, scn)
    w.client = FakeClient(w.s3, sched, plan=plan, rcc=scn.get('rcc', 'when_required'),
                          body_read_size=scn.get('body_read_size'),
                          stream_pattern=scn.get('stream_pattern', 'full'),
                          http=scn.get('endpoint') == 'http')
    w.client.send_think = scn.get('send_think', 0)
    w.source_client = w.client
    fs_sites = [s for s in faults.get('sites', ()) if s.startswith('fs:')]
    special = []
    for i, t in enumerate(scn['transfers']):
        if t.get('dst') == 'special':
            special.append(os.path.join(w.scratch.path, f'dst{i}'))
    w.osutil = FaultyOSUtils(sched, fault_sites=fs_sites, special=special)
    if faults.get('only_key') is not None:
        w.osutil.only_prefix = (f"dst{faults['only_key']}", f"src{faults['only_key']}")
    for key, size in (scn.get('objects') or {}).items():
        w.s3.put(BUCKET, key, payload(size, seed, salt=len(key)))
    cfg = TransferConfig(**scn.get('config', {}))
    set_adjuster(scn.get('adjuster'))
    set_progress_threshold(scn.get('progress_threshold'))
    set_bw_threshold(scn.get('bw_threshold'))
    if sched.inline:
        ex = NonThreadedExecutor
    else:
        ex = DetExecutor
    w.manager = TransferManager(w.client, cfg, w.osutil, executor_cls=ex)
    return w.manager


def make_subs(w, t, idx):
    subs = []
    spec = t.get('subs')
    if spec is None:
        spec = [{}]
    faults = (w.scn.get('faults') or {}).get('sites', ())
    cb_sites = [s for s in faults if s.startswith('cb:')]
    for j, sp in enumerate(spec):
        size = None
        if sp.get('provide_size'):
            size = t['size'] if 'size' in t else (w.scn.get('objects') or {}).get(t.get('src_key') or t.get('key'))
        subs.append(RecSub(w, name=f's{j}', size=size,
                           fault_sites=cb_sites if j == 0 else (),
                           raise_done=sp.get('raise_done', False),
                           reenter=sp.get('reenter')))
    w.subs[idx] = subs
    return subs


class DuckStream:
    """a seekable stream that only has read/seek/tell (no seekable()/readable())"""

    def __init__(self, inner):
        self._i = inner

    def read(self, n=-1):
        return self._i.read(n)

    def seek(self, where, whence=0):
        return self._i.seek(where, whence)

    def tell(self):
        return self._i.tell()

    def close(self):
        return self._i.close()


def _is_victim(w, idx):
    v = (w.scn.get('faults') or {}).get('only_key')
    return v is None or v == idx


def submit_transfer(w, idx):
    t = w.scn['transfers'][idx]
    m = w.manager
    sched = w.sched
    seed = w.scn.get('seed', 0)
    op = t['op']
    subs = make_subs(w, t, idx)
    extra = dict(t.get('extra') or {})
    if w.scn.get('shared_extra') is not None:
        # the caller keeps ONE dictionary of extra arguments and hands it to every transfer
        if not hasattr(w, 'shared_extra'):
            w.shared_extra = dict(w.scn['shared_extra'])
        extra = w.shared_extra
    info = {'idx': idx, 'op': op, 't': t}
    w.transfers.append(info)
    faults = (w.scn.get('faults') or {}).get('sites', ())
    try:
        if op == 'upload':
            data = payload(t.get('start', 0) + t['size'], seed, salt=idx)
            info['expected'] = data[t.get('start', 0):]
            info['key'] = t.get('key', f'up{idx}')
            src = t.get('src', 'path')
            if src == 'path':
                # `path_of`: the same file an earlier transfer uploaded, rewritten with this transfer's content
                p = os.path.join(w.scratch.path, f"src{t.get('path_of', idx)}")
                with open(p, 'wb') as f:
                    f.write(info['expected'])
                fileobj = p
            else:
                fileobj = SourceStream(sched, data, seekable=(src in ('seekable', 'duck')), short=t.get('short'),
                                       start=t.get('start', 0), name=f'src{idx}',
                                       fault=('src:read' in faults and _is_victim(w, idx)))
                info['stream'] = fileobj
                fileobj.track = bool(w.scn.get('track_buffers'))
                if src == 'duck':
                    fileobj = DuckStream(fileobj)
            fut = m.upload(fileobj, BUCKET, info['key'], extra_args=extra, subscribers=subs)
        elif op == 'download':
            key = t['key']
            info['key'] = key
            info['expected'] = w.s3.objects[(BUCKET, key)]
            dst = t.get('dst', 'path')
            if dst in ('path', 'special'):
                name = f'dst{idx}'
                if t.get('name_len'):          # destination base names up to the file system's limit
                    name = name + 'x' * (t['name_len'] - len(name))
                info['name'] = name
                p = os.path.join(w.scratch.path, name)
                info['path'] = p
                if t.get('preexisting') is not None:
                    with open(p, 'wb') as f:
                        f.write(t['preexisting'].encode() if isinstance(t['preexisting'], str) else t['preexisting'])
                fileobj = p
            else:
                fileobj = SinkStream(sched, seekable=(dst == 'seekable'), name=f'dst{idx}',
                                     fault=('sink:write' in faults and _is_victim(w, idx)))
                info['stream'] = fileobj
            fut = m.download(BUCKET, key, fileobj, extra_args=extra, subscribers=subs)
        elif op == 'copy':
            info['key'] = t.get('key', f'cp{idx}')
            info['expected'] = w.s3.objects[(BUCKET, t['src_key'])]
            fut = m.copy({'Bucket': BUCKET, 'Key': t['src_key']}, BUCKET, info['key'],
                         extra_args=extra, subscribers=subs)
        elif op == 'delete':
            info['key'] = t['key']
            fut = m.delete(BUCKET, t['key'], extra_args=extra, subscribers=subs)
        else:
            raise ValueError(op)
    except (AbortExecution, detsched.SeqDeadlock):
        raise
    except Exception as e:  # noqa - the entry point itself refused the transfer
        sched.emit('user.submit_raised', idx=idx, exc=repr(e))
        fut = _Refused(e)
    info['future'] = fut
    w.futures.append(fut)
    sched.emit('user.submitted', idx=idx, op=op)
    return fut


class _Refused:
    """stands in for the future of a transfer the entry point refused with an exception"""

    def __init__(self, exc):
        self._exc = exc
        self.meta = None

    def done(self):
        return True

    def result(self):
        raise self._exc

    def cancel(self, *a, **k):
        pass


def collect(w, idx):
    fut = w.futures[idx]
    sched = w.sched
    try:
        r = fut.result()
        w.outcomes[idx] = ('ok', r)
        sched.emit('user.result', idx=idx, outcome='ok')
    except KeyboardInterrupt:
        # Ctrl-C while waiting: not the transfer's outcome (collected after shutdown)
        w.user_events.append(('kbd', idx))
        sched.emit('user.kbd_at_result', idx=idx)
        raise
    except (AbortExecution, detsched.SeqDeadlock):
        raise
    except BaseException as e:  # noqa
        w.outcomes[idx] = ('exc', e)
        sched.emit('user.result', idx=idx, outcome=type(e).__name__, msg=str(e))


class UserBoom(ValueError):
    pass


def user_script(w):
    """The user's thread."""
    scn = w.scn
    sched = w.sched
    script = scn.get('script', 'wait')
    n = len(scn['transfers'])
    # injector threads (lowest priority: by default they run last)
    for k, inj in enumerate(scn.get('inject') or ()):
        if not sched.inline:
            sched.spawn(functools.partial(_injector, w, inj), f"inj-{inj['kind']}",
                        role='inject', prio=1)
    if not sched.inline:
        sched.spawn(functools.partial(_auditor, w), 'auditor', role='audit', prio=2, idle=True,
                    first_op=('audit', None, lambda: w.script_done))
    m = build_manager(w)
    if script == 'wait':
        for i in range(n):
            submit_transfer(w, i)
        kbd = None
        for i in range(n):
            try:
                collect(w, i)
            except KeyboardInterrupt as e:
                kbd = e
                sched.emit('user.kbd', where=f'result{i}')
        try:
            sched.emit('user.shutdown_called')
            m.shutdown()
            sched.emit('user.shutdown_returned')
        except KeyboardInterrupt:
            sched.emit('user.kbd', where='shutdown')
            sched.emit('user.shutdown_returned')
    elif script == 'shutdown':
        for i in range(n):
            submit_transfer(w, i)
        try:
            sched.emit('user.shutdown_called')
            m.shutdown()
            sched.emit('user.shutdown_returned')
        except KeyboardInterrupt:
            sched.emit('user.kbd', where='shutdown')
            sched.emit('user.shutdown_returned')
    elif script == 'with_clean':
        # leave the with-block normally right after submitting: __exit__ does the waiting
        try:
            with m:
                for i in range(n):
                    submit_transfer(w, i)
                sched.emit('user.shutdown_called')
            sched.emit('user.shutdown_returned')
        except KeyboardInterrupt:
            sched.emit('user.kbd', where='with-exit')
            sched.emit('user.shutdown_returned', raised='KeyboardInterrupt')
    elif script in ('with', 'with_raise_kbd', 'with_raise_value', 'with_raise_empty'):
        try:
            with m:
                for i in range(n):
                    submit_transfer(w, i)
                sched.point('user.body', 'with')
                if script != 'with':
                    sched.emit('user.shutdown_called')
                if script == 'with_raise_kbd':
                    raise KeyboardInterrupt()
                if script == 'with_raise_value':
                    raise UserBoom('boom')
                if script == 'with_raise_empty':
                    raise UserBoom()
                sched.emit('user.shutdown_called')
            sched.emit('user.shutdown_returned')
        except KeyboardInterrupt:
            sched.emit('user.shutdown_returned', raised='KeyboardInterrupt')
        except UserBoom:
            sched.emit('user.shutdown_returned', raised='UserBoom')
    elif script == 'fresh':
        # transfers [0..n-2] first, wait, then a fresh one, then shutdown
        for i in range(n - 1):
            submit_transfer(w, i)
        for i in range(n - 1):
            collect(w, i)
        submit_transfer(w, n - 1)
        collect(w, n - 1)
        sched.emit('user.shutdown_called')
        m.shutdown()
        sched.emit('user.shutdown_returned')
    else:
        raise ValueError(script)
    sched.emit('user.done_flags', flags=[f.done() for f in w.futures])
    # after shutdown nothing blocks: gather the outcomes not collected yet
    for i in range(len(w.futures)):
        if i not in w.outcomes:
            try:
                collect(w, i)
            except KeyboardInterrupt:
                pass
    # sliding windows of the manager, read through their public API while the
    # scheduler is still alive
    fw = []
    try:
        from s3transfer.utils import SlidingWindowSemaphore
        from s3transfer.manager import IN_MEMORY_DOWNLOAD_TAG
        for tag, sem in m._request_executor._tag_semaphores.items():
            if tag is IN_MEMORY_DOWNLOAD_TAG and isinstance(sem, SlidingWindowSemaphore):
                fw.append((sem.current_count(), m.config.max_in_memory_download_chunks))
    except AttributeError:
        pass
    w.final_windows = fw
    w.script_done = True


def _auditor(w):
    """Runs when nothing else can: the outcome a finished future reports must not change any more."""
    sched = w.sched
    sched.current.idle = False
    w.audit = {}
    for i, fut in enumerate(w.futures):
        if not fut.done():
            w.audit[i] = ('notdone', None)
            continue
        try:
            fut.result()
            w.audit[i] = ('ok', None)
        except AbortExecution:
            raise
        except BaseException as e:  # noqa
            w.audit[i] = ('exc', e)
    sched.emit('audit', outcomes={i: (o[0] if o[0] != 'exc' else type(o[1]).__name__) for i, o in w.audit.items()})


def _injector(w, inj):
    sched = w.sched
    kind = inj['kind']
    if kind == 'cancel':
        tgt = inj.get('target', 0)
        sched.point('inject.cancel', tgt, enabled=lambda: len(w.futures) > tgt)
        sched.current.prio = 0          # started: from now on an ordinary user thread
        sched.emit('inject', kind='cancel', target=tgt,
                   done_before=w.futures[tgt].done())
        w.futures[tgt].cancel()
        sched.emit('inject.returned', kind='cancel', target=tgt)
    elif kind == 'shutdown_cancel':
        sched.point('inject.shutdown', 0, enabled=lambda: w.manager is not None and
                    len(w.futures) >= inj.get('after', len(w.scn['transfers'])))
        sched.current.prio = 0
        sched.emit('inject', kind='shutdown_cancel', msg=inj.get('msg', ''),
                   done_before=[f.done() for f in w.futures])
        try:
            w.manager.shutdown(cancel=True, cancel_msg=inj.get('msg', ''))
            sched.emit('inject.returned', kind='shutdown_cancel')
        except AbortExecution:
            raise
        except BaseException as e:  # noqa
            sched.emit('inject.raised', kind='shutdown_cancel', exc=type(e).__name__, msg=str(e))
            w.user_events.append(('shutdown_cancel_raised', e))
    elif kind == 'ctrlc':
        user = sched.threads[0]
        sched.point('inject.ctrlc', 0, enabled=lambda: w.manager is not None and
                    len(w.futures) >= inj.get('after', 1))
        sched.emit('inject', kind='ctrlc', done_before=[f.done() for f in w.futures])
        sched.deliver_interrupt(user)
    else:
        raise ValueError(kind)


class RunResult:
    __slots__ = ('sched', 'world', 'outcome')


def run_scenario(scn, prefix=(), scratch=None, record_points=False, on_point=None):
    """One execution of a manager scenario on the real code."""
    install()
    own = scratch is None
    if own:
        scratch = ScratchDir()
    else:
        scratch.reset()
    random.seed(scn.get('seed', 0) * 7919 + 17)
    statereset.restore()
    sched = Sched(prefix=prefix, horizon=scn.get('horizon', 30000),
                  record_points=record_points)
    if scn.get('granularity', 'fine') == 'coarse':
        sched.nopreempt = detsched.COARSE_SKIP
    w = World(sched, scn, scratch)
    set_shared_fields(bool(scn.get('fields')), reads=scn.get('field_reads', True))
    if on_point is not None:
        sched.on_point = lambda s: on_point(w)

    def main():
        try:
            user_script(w)
        except (AbortExecution, detsched.SeqDeadlock):
            raise
        except BaseException as e:  # noqa
            w.script_exc = e
            sched.emit('user.crash', exc=repr(e))
            raise

    try:
        if scn.get('mode') == 'inline':
            sched.run_inline(main)
        else:
            sched.run(main)
    finally:
        set_shared_fields(False)
        set_adjuster(None)
        set_progress_threshold(None)
        set_bw_threshold(None)
        if own:
            w.final_listing = scratch.listing()
            scratch.cleanup()
        else:
            w.final_listing = scratch.listing()
    return w
