"""CLI: ./check <Cxx> --tier quick|thorough ; ./check replay <file>"""
import argparse
import importlib
import json
import os
import subprocess
import sys
import time
import traceback

ROOT = os.path.dirname(os.path.dirname(os.path.abspath(__file__)))
OUT = os.environ.get('VERIF_OUT') or ROOT     # mutation trials write elsewhere
PROPS = [f'C{i:02d}' for i in range(1, 21)]


def load_known():
    p = os.path.join(ROOT, 'known_findings.json')
    if not os.path.exists(p):
        return []
    return json.load(open(p)).get('findings', [])


def match_known(known, prop, sig):
    """A known finding suppresses exactly the violations whose signature starts
    with its signature (so a different violation of the same property still
    fires); 'fixed' entries suppress nothing."""
    for k in known:
        if k.get('status') != 'known':
            continue
        if k['property'] == prop and sig.startswith(k['signature']):
            return k
    return None


def write_evidence(prop, tier, seed, level, coverage, assumptions, wall, nviol):
    ev = {'property_id': prop, 'tier': tier, 'seed': seed, 'level': level,
          'coverage': coverage, 'assumptions': assumptions,
          'wall_s': round(wall, 3), 'violations': nviol}
    os.makedirs(os.path.join(OUT, 'evidence'), exist_ok=True)
    path = os.path.join(OUT, 'evidence', f'{prop}.json')
    with open(path, 'w') as f:
        json.dump(ev, f, indent=1, default=str)
    # validate against the schema with the tooling interpreter (has jsonschema)
    schema = '/root/.vp/EVIDENCE.schema.json'
    if os.path.exists(schema):
        code = ("import json,jsonschema,sys;"
                f"jsonschema.validate(json.load(open({path!r})),json.load(open({schema!r})))")
        try:
            r = subprocess.run(['python3-vt', '-c', code], capture_output=True, text=True, timeout=60)
            if r.returncode != 0:
                print('HARNESS-ERROR: evidence does not validate:', r.stderr[-800:])
                return False
        except FileNotFoundError:
            pass
    return True


def write_replay(prop, idx, data):
    d = os.path.join(OUT, 'replays')
    os.makedirs(d, exist_ok=True)
    path = os.path.join(d, f'{prop}_{idx}.json')
    with open(path, 'w') as f:
        json.dump(data, f, indent=1, default=str)
    return path


def run_check(prop, tier, seed):
    t0 = time.time()
    mod = importlib.import_module(f'vt.props.{prop}')
    res = mod.run(tier, seed)
    wall = time.time() - t0
    known = load_known()
    new, seen_known = [], {}
    for v in res.get('violations', []):
        k = match_known(known, prop, v['sig'])
        if k is not None:
            seen_known.setdefault(k['id'], [k, 0])
            seen_known[k['id']][1] += 1
        else:
            new.append(v)
    cov = res['coverage']
    cov.setdefault('known_findings_observed',
                   {kid: n for kid, (k, n) in seen_known.items()})
    ok = write_evidence(prop, tier, seed, res.get('level', 'model_checking'), cov,
                        res.get('assumptions', []), wall, len(new))
    for kid, (k, n) in sorted(seen_known.items()):
        print(f"KNOWN-FINDING: property={prop} {kid}: {k['what']} (observed in {n} explored case(s))")
    # distinct new signatures -> one replay file each (first 5)
    done = set()
    rc = 0
    for v in new:
        if v['sig'] in done:
            continue
        done.add(v['sig'])
        if len(done) > 5:
            break
        path = write_replay(prop, len(done), {'property': prop, 'sig': v['sig'],
                                               'msg': v['msg'], 'replay': v.get('replay')})
        print(f"VIOLATION property={prop} replay={path}")
        print(f"  {v['sig']}: {v['msg'][:600]}")
        rc = 1
    summary = {k: cov.get(k) for k in ('states', 'transitions', 'evaluations',
                                       'distinct_nontrivial', 'exhaustive', 'bound_completed',
                                       'caps_hit') if k in cov}
    print(f"{prop} tier={tier} seed={seed} wall={wall:.1f}s {json.dumps(summary)}")
    if not ok:
        return 2
    return rc


def run_replay(path):
    data = json.load(open(path))
    prop = data['property']
    mod = importlib.import_module(f'vt.props.{prop}')
    out1 = mod.replay(data['replay'])
    out2 = mod.replay(data['replay'])
    if out1.get('digest') != out2.get('digest'):
        print('HARNESS-ERROR: two replays of the same schedule differ')
        return 2
    print(json.dumps(out1, indent=1, default=str)[:6000])
    if out1.get('violations'):
        print(f"VIOLATION property={prop} replay={path}")
        return 1
    print('replay: property held')
    return 0


def _scratch_root():
    """one scratch root per check run; pool workers create their directories inside it and the
    whole tree is removed when the check ends (worker processes do not run atexit handlers)"""
    import tempfile
    base = '/dev/shm' if os.path.isdir('/dev/shm') and os.access('/dev/shm', os.W_OK) else tempfile.gettempdir()
    root = tempfile.mkdtemp(prefix='vtroot-', dir=base)
    os.environ['VT_SCRATCH_ROOT'] = root
    return root


def main(argv=None):
    root = _scratch_root()
    try:
        return _main(argv)
    finally:
        import shutil
        shutil.rmtree(root, ignore_errors=True)


def _main(argv=None):
    ap = argparse.ArgumentParser()
    ap.add_argument('what')
    ap.add_argument('arg', nargs='?')
    ap.add_argument('--tier', default=os.environ.get('VERIF_TIER', 'quick'))
    a = ap.parse_args(argv)
    seed = int(os.environ.get('VERIF_SEED', '0') or 0)
    try:
        if a.what == 'replay':
            return run_replay(a.arg)
        if a.what not in PROPS:
            print('unknown property', a.what)
            return 2
        tier = a.tier if a.tier in ('quick', 'thorough') else 'quick'
        return run_check(a.what, tier, seed)
    except Exception:
        traceback.print_exc()
        print('HARNESS-ERROR')
        return 2


if __name__ == '__main__':
    sys.exit(main())
