"""C01 - see DESIGN.md section 3/C01; scenarios in catalog.jobs_C01, oracles in common."""
from . import common, catalog

LEVEL = 'model_checking'


def run(tier, seed):
    jobs = catalog.jobs_for('C01', tier, seed)
    cov, viol = common.run_catalogue(jobs, tier, 'C01')
    return {'coverage': cov, 'violations': viol, 'level': LEVEL,
            'assumptions': common.ASSUMPTIONS}


def replay(data):
    return common.replay_manager(data)
