"""C01 - see DESIGN.md section 3/C01; scenarios in catalog.jobs_C01, oracles in common;
the legacy S3Transfer / process-pool front-ends are driven sequentially by frontends.py."""
from . import common, catalog, frontends

LEVEL = "model_checking"


def run(tier, seed):
    jobs = catalog.jobs_for('C01', tier, seed)
    cov, viol = common.run_catalogue(jobs, tier, 'C01')
    common.body_protocol_conformance(cov)
    fcov, fviol = frontends.run_jobs(frontends.upload_jobs(tier, 'C01', faults=True))
    cov['other_front_ends'] = fcov
    for k in ('states', 'transitions'):
        cov[k] += fcov[k]
    for k in ('evaluations', 'executions', 'traces_validated_against_impl'):
        cov[k] += fcov['executions']
    cov['distinct_nontrivial'] += fcov['distinct_outcomes']
    cov['caps_hit'] = cov['caps_hit'] + fcov['caps_hit']
    cov['exhaustive'] = not cov['caps_hit']
    viol.extend(fviol)
    return {'coverage': cov, 'violations': viol, 'level': LEVEL,
            'assumptions': common.ASSUMPTIONS + ['legacy S3Transfer and the process-pool submitter/worker loop are driven under one canonical (sequential) schedule']}


def replay(data):
    if data.get('kind') == 'frontend':
        return frontends.replay(data)
    return common.replay_manager(data)
