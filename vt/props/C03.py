"""C03 - see DESIGN.md section 3/C03; scenarios in catalog.jobs_C03, oracles in common;
the legacy S3Transfer / process-pool front-ends are driven sequentially by frontends.py."""
from . import common, catalog, frontends

LEVEL = "fault_enumeration"


def run(tier, seed):
    jobs = catalog.jobs_for('C03', tier, seed)
    cov, viol = common.run_catalogue(jobs, tier, 'C03')
    # C03 is stated for futures (transfer manager); the legacy S3Transfer has no
    # future and deliberately retries any OSError, so it is not judged here
    return {'coverage': cov, 'violations': viol, 'level': LEVEL,
            'assumptions': common.ASSUMPTIONS + ['legacy S3Transfer and the process-pool submitter/worker loop are driven under one canonical (sequential) schedule']}


def replay(data):
    if data.get('kind') == 'frontend':
        return frontends.replay(data)
    return common.replay_manager(data)
