"""C06 - see DESIGN.md section 3/C06; scenarios in catalog.jobs_C06, oracles in common;
the legacy S3Transfer / process-pool front-ends are driven sequentially by frontends.py."""
from . import common, catalog, frontends

LEVEL = "model_checking"


def run(tier, seed):
    jobs = catalog.jobs_for('C06', tier, seed)
    cov, viol = common.run_catalogue(jobs, tier, 'C06')
    fcov, fviol = frontends.run_jobs(frontends.download_jobs(tier, 'C06', faults=True, monitor_fs=True, pre=(None, 'OLD')))
    cov['other_front_ends'] = fcov
    for k in ('states', 'transitions'):
        cov[k] += fcov[k]
    for k in ('evaluations', 'executions', 'traces_validated_against_impl'):
        cov[k] += fcov['executions']
    cov['distinct_nontrivial'] += fcov['distinct_outcomes']
    cov['caps_hit'] = cov['caps_hit'] + fcov['caps_hit']
    cov['exhaustive'] = not cov['caps_hit']
    viol.extend(fviol)
    # the process pool under thread schedules (2 workers): crash points and end state
    from . import C19
    ptot, pviol = C19.run_job_list(C19.c06_jobs(tier), seed, tier)
    cov['process_pool_in_process'] = ptot.to_dict()
    cov['states'] += ptot.states
    cov['transitions'] += ptot.transitions
    for k in ('evaluations', 'executions', 'traces_validated_against_impl'):
        cov[k] += ptot.executions
    cov['distinct_nontrivial'] += len(ptot.signatures)
    cov['caps_hit'] = cov['caps_hit'] + ptot.caps_hit
    cov['exhaustive'] = not cov['caps_hit']
    viol.extend(pviol)
    return {'coverage': cov, 'violations': viol, 'level': LEVEL,
            'assumptions': common.ASSUMPTIONS + ['legacy S3Transfer and the process-pool submitter/worker loop are driven under one canonical (sequential) schedule']}


def replay(data):
    if data.get('kind') == 'pp':
        from . import C19
        return C19.replay(data)
    if data.get('kind') == 'frontend':
        return frontends.replay(data)
    return common.replay_manager(data)
