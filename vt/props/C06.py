"""C06 - see DESIGN.md section 3/C06; scenarios in catalog.jobs_C06, oracles in common."""
from . import common, catalog

LEVEL = 'model_checking'


def run(tier, seed):
    jobs = catalog.jobs_for('C06', tier, seed)
    cov, viol = common.run_catalogue(jobs, tier, 'C06')
    return {'coverage': cov, 'violations': viol, 'level': LEVEL,
            'assumptions': common.ASSUMPTIONS}


def replay(data):
    return common.replay_manager(data)
