"""C07 - see DESIGN.md section 3/C07; scenarios in catalog.jobs_C07, oracles in common."""
from . import common, catalog

LEVEL = 'model_checking'


def run(tier, seed):
    jobs = catalog.jobs_for('C07', tier, seed)
    cov, viol = common.run_catalogue(jobs, tier, 'C07')
    return {'coverage': cov, 'violations': viol, 'level': LEVEL,
            'assumptions': common.ASSUMPTIONS}


def replay(data):
    return common.replay_manager(data)
