"""C09 - see DESIGN.md section 3/C09; scenarios in catalog.jobs_C09, oracles in common."""
from . import common, catalog

LEVEL = 'model_checking'


def run(tier, seed):
    jobs = catalog.jobs_for('C09', tier, seed)
    cov, viol = common.run_catalogue(jobs, tier, 'C09')
    common.body_protocol_conformance(cov)
    return {'coverage': cov, 'violations': viol, 'level': LEVEL,
            'assumptions': common.ASSUMPTIONS}


def replay(data):
    return common.replay_manager(data)
