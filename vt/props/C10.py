"""C10 - see DESIGN.md section 3/C10; scenarios in catalog.jobs_C10, oracles in common."""
from . import common, catalog

LEVEL = 'model_checking'


def run(tier, seed):
    jobs = catalog.jobs_for('C10', tier, seed)
    cov, viol = common.run_catalogue(jobs, tier, 'C10')
    return {'coverage': cov, 'violations': viol, 'level': LEVEL,
            'assumptions': common.ASSUMPTIONS}


def replay(data):
    return common.replay_manager(data)
