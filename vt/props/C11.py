"""C11 - see DESIGN.md section 3/C11; scenarios in catalog.jobs_C11, oracles in common."""
from . import common, catalog

LEVEL = 'model_checking'


def run(tier, seed):
    jobs = catalog.jobs_for('C11', tier, seed)
    cov, viol = common.run_catalogue(jobs, tier, 'C11')
    # the deferred queue itself: data re-delivered by a retried request while the first copy is still
    # waiting must not be held twice (BFS over delivery histories on the real DeferQueue, see C16)
    import time
    from . import C16
    t0 = time.time()
    parts = {}
    for P, L, sizes, mr, depth in ([(2, 3, (1, 2, 3), 1, 10), (3, 3, (1, 2), 1, 9)] if tier == 'quick'
                                   else [(2, 3, (1, 2, 3), 2, 12), (3, 3, (1, 2), 2, 10)]):
        r = C16.defer_bfs(P, L, sizes, mr, depth, deadline=t0 + (60 if tier == 'quick' else 600))
        parts[f'defer queue P={P} L={L} sizes={sizes} restarts<={mr}'] = {
            'states': r.states, 'transitions': r.transitions, 'depth': r.depth_completed, 'caps_hit': r.caps_hit}
        cov['states'] += r.states
        cov['transitions'] += r.transitions
        cov['evaluations'] = cov.get('evaluations', 0) + r.transitions
        cov['caps_hit'] = list(cov.get('caps_hit', [])) + list(r.caps_hit)
        for v in r.violations:
            if v['sig'].startswith('C11'):
                viol.append({'sig': v['sig'], 'msg': v['msg'] + f' P={P} L={L} history={v["history"]}',
                             'replay': {'kind': 'defer', 'P': P, 'L': L, 'history': v['history']}})
    cov['deferred_queue_bfs'] = parts
    cov['exhaustive'] = not cov['caps_hit']
    return {'coverage': cov, 'violations': viol, 'level': LEVEL,
            'assumptions': common.ASSUMPTIONS}


def replay(data):
    if data.get('kind') == 'defer':
        from . import C16
        errs = [e for e in C16.run_history(data['P'], data['L'], data['history']) if e[0].startswith('C11')]
        return {'violations': errs, 'digest': repr(errs)}
    return common.replay_manager(data)
