"""C12 - semaphores: sliding-window semantics and permit conservation.

(a) BFS over the real SlidingWindowSemaphore / TaskSemaphore against a reference
    model, all operation histories up to a depth bound.
(b) all schedules (unbounded) of blocking acquirers + out-of-order releasers.
(c) end-to-end quiescence: after manager scenarios every semaphore is full.
"""
import itertools
import os
import time

from .. import harness, bfs, explore, detsched
from ..detsched import Sched
from . import common

harness.install()
from s3transfer.utils import (SlidingWindowSemaphore, TaskSemaphore,  # noqa: E402
                              NoResourcesAvailable)

TAGS = ('a', 'b', 'c')


class RefWindow:
    """Reference model written from the statement."""

    def __init__(self, n):
        self.n = n
        self.next = {}
        self.released = {}

    def lowest(self, tag):
        nx = self.next[tag]
        rel = self.released[tag]
        k = 0
        while k < nx and k in rel:
            k += 1
        return k

    def capacity(self):
        return self.n - sum(self.next[t] - self.lowest(t) for t in self.next)

    def acquire(self, tag):
        if self.capacity() <= 0:
            return ('raise', 'NoResourcesAvailable')
        tok = self.next.get(tag, 0)
        self.next[tag] = tok + 1
        self.released.setdefault(tag, set())
        return ('ok', tok)

    def release(self, tag, tok):
        if tag not in self.next:
            return ('raise', 'ValueError')
        if tok >= self.next[tag] or tok < 0:
            return ('raise', 'ValueError')       # never issued
        if tok in self.released[tag]:
            return ('undefined', None)           # double release: outside the statement
        self.released[tag].add(tok)
        return ('ok', None)

    def state(self):
        return (self.n, tuple(sorted((t, self.next[t], tuple(sorted(self.released[t])))
                                     for t in self.next)))


def _impl_state(sem):
    try:
        return (sem._count,
                tuple(sorted(sem._tag_sequences.items())),
                tuple(sorted(sem._lowest_sequence.items())),
                tuple(sorted((k, tuple(v)) for k, v in sem._pending_release.items())))
    except AttributeError:
        return None


def _call(fn, *a):
    try:
        return ('ok', fn(*a))
    except NoResourcesAvailable:
        return ('raise', 'NoResourcesAvailable')
    except ValueError:
        return ('raise', 'ValueError')
    except detsched.SeqDeadlock:
        return ('blocked', None)
    except Exception as e:   # noqa
        return ('raise', type(e).__name__)


def window_bfs(n, ntags, depth, deadline):
    tags = TAGS[:ntags]

    def make():
        return SlidingWindowSemaphore(n), RefWindow(n)

    def ops_of(impl, model):
        ops = [('acq', t) for t in tags]
        for t in tags:
            if t in model.next:
                nx = model.next[t]
                for k in range(nx):
                    if k not in model.released[t]:
                        ops.append(('rel', t, k))
                ops.append(('rel', t, nx))        # never issued: next
                ops.append(('rel', t, nx + 1))    # never issued: next+1
            else:
                ops.append(('rel', t, 0))         # unknown tag
        return ops

    def step(impl, model, op):
        errors = []
        before = _impl_state(impl)
        cnt_before = _call(impl.current_count)
        if op[0] == 'acq':
            exp = model.acquire(op[1])
            got = _call(impl.acquire, op[1], False)
        else:
            exp = model.release(op[1], op[2])
            got = _call(impl.release, op[1], op[2])
        if exp[0] == 'ok' and op[0] == 'rel':
            exp = ('ok', got[1] if got[0] == 'ok' else None)   # return value unspecified
        if got != exp:
            what = 'acquire' if op[0] == 'acq' else 'release'
            kind = 'never-issued-accepted' if (op[0] == 'rel' and exp[0] == 'raise' and got[0] == 'ok') else 'mismatch'
            errors.append((f'C12:window:{what}:{kind}',
                           f'{op} -> {got}, reference says {exp} (n={n})'))
        cnt = _call(impl.current_count)
        if cnt != ('ok', model.capacity()) and not errors:
            errors.append(('C12:window:capacity',
                           f'after {op}: current_count()={cnt}, reference capacity {model.capacity()} (n={n})'))
        if exp[0] == 'raise' and not errors:
            after = _impl_state(impl)
            if before is not None and after != before or cnt != cnt_before:
                errors.append(('C12:window:rejected-op-changed-state',
                               f'{op} was rejected but state changed {before} -> {after}'))
        return (got[0], got[1] if got[0] != 'ok' or op[0] == 'acq' else None), errors

    def canon(impl, model):
        return (model.state(), bfs.snapshot(impl))

    return bfs.bfs(make, ops_of, step, canon, depth, deadline=deadline)


class RefTask:
    def __init__(self, n):
        self.n = n
        self.out = 0


def task_bfs(n, depth, deadline):
    def make():
        return TaskSemaphore(n), RefTask(n)

    def ops_of(impl, model):
        ops = [('acq',)]
        if model.out > 0:
            ops.append(('rel',))
        return ops

    def step(impl, model, op):
        errors = []
        if op[0] == 'acq':
            got = _call(impl.acquire, 't', False)
            if model.out >= model.n:
                exp = ('raise', 'NoResourcesAvailable')
            else:
                exp = ('ok', None)
                model.out += 1
        else:
            got = _call(impl.release, 't', None)
            exp = ('ok', None)
            model.out -= 1
        if got != exp:
            errors.append(('C12:task:mismatch', f'{op} -> {got}, reference says {exp} (n={n}, out={model.out})'))
        return got, errors

    def canon(impl, model):
        return (model.out, bfs.snapshot(impl))

    return bfs.bfs(make, ops_of, step, canon, depth, deadline=deadline)


# ---------------------------------------------------------------------------
# (a2) BoundedExecutor: permits taken and returned by submit() / task completion
# ---------------------------------------------------------------------------

class ManualFuture:
    def __init__(self):
        self._cbs = []
        self._done = False

    def add_done_callback(self, fn):
        if self._done:
            fn(self)
        else:
            self._cbs.append(fn)

    def done(self):
        return self._done

    def result(self):
        return None

    def finish(self):
        self._done = True
        for fn in self._cbs:
            fn(self)
        self._cbs = []


class ManualExecutor:
    """tasks stay parked until the history says they finish"""
    last = None

    def __init__(self, max_workers=None):
        self.futs = []
        self.fail_next = False
        ManualExecutor.last = self

    def submit(self, fn, *a, **k):
        if self.fail_next:
            self.fail_next = False
            raise RuntimeError('cannot schedule new futures after shutdown')
        f = ManualFuture()
        self.futs.append(f)
        return f

    def shutdown(self, wait=True):
        pass


class _Task:
    def __init__(self, tid):
        self.transfer_id = tid

    def __call__(self, *a):
        pass


def bounded_executor_bfs(cap, tagcap, wincap, depth, deadline):
    from s3transfer.futures import BoundedExecutor, TaskTag
    T_UP, T_WIN = TaskTag('up'), TaskTag('win')

    class M:
        def __init__(self):
            self.out = {'plain': 0, 'up': 0, 'win': 0}
            self.caps = {'plain': cap, 'up': tagcap, 'win': wincap}
            self.tasks = []      # (kind, finished?)
            self.win = RefWindow(wincap)     # the window frees capacity only in token order

        def used(self, kind):
            if kind == 'win':
                return self.caps['win'] - self.win.capacity()
            return self.out[kind]

    def make():
        be = BoundedExecutor(cap, 1, {T_UP: TaskSemaphore(tagcap), T_WIN: SlidingWindowSemaphore(wincap)},
                             executor_cls=ManualExecutor)
        be._vt_ex = ManualExecutor.last
        return be, M()

    def ops_of(impl, m):
        ops = [('sub', 'plain'), ('sub', 'up'), ('sub', 'win'), ('subfail', 'plain')]
        for i, (k, fin, _tok) in enumerate(m.tasks):
            if not fin:
                ops.append(('fin', i))
        return ops

    def free(impl):
        # free permits of each semaphore through the public non-blocking API is intrusive; read counters
        try:
            return {'plain': impl._semaphore._semaphore._value, 'up': impl._tag_semaphores[T_UP]._semaphore._value,
                    'win': impl._tag_semaphores[T_WIN].current_count()}
        except AttributeError:
            return None

    def step(impl, m, op):
        errors = []
        if op[0] in ('sub', 'subfail'):
            kind = op[1]
            tag = {'plain': None, 'up': T_UP, 'win': T_WIN}[kind]
            if op[0] == 'subfail':
                impl._vt_ex.fail_next = True
            full = m.used(kind) >= m.caps[kind]
            try:
                impl.submit(_Task(0), tag=tag, block=False)
                got = 'ok'
            except NoResourcesAvailable:
                got = 'refused'
            except RuntimeError:
                got = 'executor-error'
            except Exception as e:  # noqa
                got = type(e).__name__
            impl._vt_ex.fail_next = False
            exp = 'refused' if full else ('executor-error' if op[0] == 'subfail' else 'ok')
            if got != exp:
                errors.append((f'C12:executor:submit:{kind}', f'non-blocking submit ({kind}) -> {got}, reference {exp} with {m.out[kind]}/{m.caps[kind]} slots held'))
            if exp == 'ok':
                m.out[kind] += 1
                tok = None
                if kind == 'win':
                    tok = m.win.acquire(0)[1]
                m.tasks.append([kind, False, tok])
            elif exp == 'executor-error':
                # the permit taken for a task the executor refused is never handed back by anybody:
                # the statement only demands conservation for finished transfers; accept either (reference follows impl)
                f = free(impl)
                if f is not None:
                    if kind == 'win':
                        if f['win'] != m.caps['win'] - m.used('win'):
                            m.win.acquire(0)       # the permit stays taken
                    else:
                        m.out[kind] = m.caps[kind] - f[kind]
        else:
            i = op[1]
            live = [f for f in impl._vt_ex.futs]
            # the i-th accepted task
            idx = -1
            cnt = -1
            for j, f in enumerate(live):
                cnt += 1
                if cnt == i:
                    idx = j
                    break
            live[idx].finish()
            m.tasks[i][1] = True
            m.out[m.tasks[i][0]] -= 1
            if m.tasks[i][0] == 'win':
                m.win.release(0, m.tasks[i][2])
            got = 'ok'
        f = free(impl)
        if f is not None and not errors:
            for kind in ('plain', 'up', 'win'):
                if f[kind] != m.caps[kind] - m.used(kind):
                    errors.append((f'C12:executor:capacity:{kind}',
                                   f'after {op}: {f[kind]} free permits on the {kind} semaphore, reference {m.caps[kind] - m.used(kind)} (capacity {m.caps[kind]}, {m.out[kind]} tasks outstanding)'))
                    break
        return got, errors

    def canon(impl, m):
        return (tuple(sorted(m.out.items())), tuple((k, fin) for k, fin, _t in m.tasks),
                bfs.snapshot(impl._semaphore), tuple(sorted((repr(k), bfs.snapshot(v)) for k, v in impl._tag_semaphores.items())))

    return bfs.bfs(make, ops_of, step, canon, depth, deadline=deadline)


# ---------------------------------------------------------------------------
# (b) schedules of blocking acquirers and releasers
# ---------------------------------------------------------------------------

def sched_scenario(cfg, prefix):
    """cfg: dict(cap, acquirers=[tag,...], pre=[(tag, count)], release_order=[...])

    `pre` tokens are issued up front (non-blocking) by the main thread; releaser
    threads release them in the given (out-of-order) order; each acquirer blocks
    until it gets a token and then releases it.  Invariant: holders <= capacity;
    no deadlock; everybody finishes; final count == capacity.
    """
    harness.install()
    s = Sched(prefix=prefix, horizon=5000)
    state = {'errors': [], 'holders': 0, 'maxholders': 0, 'got': []}
    cap = cfg['cap']

    def main():
        sem = (TaskSemaphore if cfg.get('kind') == 'task' else SlidingWindowSemaphore)(cap)
        state['sem'] = sem
        pre = []
        for tag, cnt in cfg['pre']:
            for _ in range(cnt):
                pre.append((tag, sem.acquire(tag, False)))
        state['holders'] = len(pre)

        def acquirer(tag):
            tok = sem.acquire(tag, True)
            state['holders'] += 1
            state['got'].append((tag, tok))
            if state['holders'] > cap:
                state['errors'].append(
                    ('C12:sched:over-capacity',
                     f'{state["holders"]} tokens held with capacity {cap}: {state["got"]} + pre {pre}'))
            s.point('hold', tag)
            state['holders'] -= 1
            sem.release(tag, tok)

        def releaser(items):
            for tag, tok in items:
                state['holders'] -= 1
                sem.release(tag, tok)

        order = [pre[i] for i in cfg['release_order']]
        k = cfg.get('releasers', 1)
        chunks = [order[i::k] for i in range(k)]
        ths = []
        for i, tag in enumerate(cfg['acquirers']):
            ths.append(s.spawn(lambda tag=tag: acquirer(tag), f'acq{i}'))
        for i, ch in enumerate(chunks):
            ths.append(s.spawn(lambda ch=ch: releaser(ch), f'rel{i}'))
        for t in ths:
            s.point('join', t.name, enabled=lambda t=t: t.state == detsched.DONE)
        # free capacity at quiescence, measured through the public API only
        probes = []
        try:
            for _ in range(cap + 1):
                probes.append(sem.acquire('a', False))
        except NoResourcesAvailable:
            pass
        state['final'] = len(probes)
        for tok in reversed(probes):
            sem.release('a', tok)

    s.run(main)
    x = explore.Exec()
    x.decisions = [d.as_tuple() for d in s.decisions]
    x.outcome = s.outcome
    x.steps = s.step
    x.extra['max_threads'] = s.max_threads
    for sig, msg in state['errors'][:1]:
        x.violations.append({'sig': sig, 'msg': msg})
    if s.outcome == 'deadlock':
        x.violations.append({'sig': 'C12:sched:blocked-forever',
                             'msg': f'acquirer blocked although every issued token was released: {s.outcome_detail}'})
    elif s.outcome == 'ok' and state.get('final') != cap and not x.violations:
        x.violations.append({'sig': 'C12:sched:not-full-at-quiescence',
                             'msg': f'final count {state.get("final")} != {cap}'})
    crashed = [t for t in s.threads if t.exc is not None]
    if crashed and not x.violations:
        x.violations.append({'sig': 'C12:sched:exception',
                             'msg': f'{crashed[0].name}: {crashed[0].exc!r}'})
    x.signature = (s.outcome, tuple(state['got']), state.get('final'))
    x.sample = {'cfg': cfg}
    return x


def sched_configs(tier):
    cfgs = []
    # cap 1: one pre-issued token, 1-2 acquirers, same / different tag
    cfgs.append(dict(cap=1, pre=[('a', 1)], release_order=[0], acquirers=['a']))
    cfgs.append(dict(cap=1, pre=[('a', 1)], release_order=[0], acquirers=['a', 'a']))
    cfgs.append(dict(cap=1, pre=[('a', 1)], release_order=[0], acquirers=['a', 'b']))
    # cap 2: two pre-issued released out of order
    cfgs.append(dict(cap=2, pre=[('a', 2)], release_order=[1, 0], acquirers=['a']))
    cfgs.append(dict(cap=2, pre=[('a', 2)], release_order=[1, 0], acquirers=['a', 'a']))
    cfgs.append(dict(cap=2, pre=[('a', 1), ('b', 1)], release_order=[1, 0], acquirers=['a', 'b']))
    # the plain task semaphore (default semaphore of the three stages and the upload tag)
    cfgs.append(dict(kind='task', cap=1, pre=[('a', 1)], release_order=[0], acquirers=['a', 'a']))
    cfgs.append(dict(kind='task', cap=2, pre=[('a', 2)], release_order=[0, 1], acquirers=['a', 'a']))
    cfgs.append(dict(kind='task', cap=2, pre=[('a', 2)], release_order=[0, 1], acquirers=['a', 'a'], releasers=2))
    if tier == 'thorough':
        cfgs.append(dict(kind='task', cap=2, pre=[('a', 2)], release_order=[0, 1], acquirers=['a', 'a', 'a']))
        cfgs.append(dict(kind='task', cap=3, pre=[('a', 3)], release_order=[0, 1, 2], acquirers=['a', 'a', 'a'], releasers=2))
        cfgs.append(dict(cap=2, pre=[('a', 2)], release_order=[1, 0], acquirers=['a', 'b'], releasers=2))
        cfgs.append(dict(cap=1, pre=[('a', 1)], release_order=[0], acquirers=['a', 'a', 'a']))
        cfgs.append(dict(cap=2, pre=[('a', 2)], release_order=[1, 0], acquirers=['a', 'a', 'b']))
        cfgs.append(dict(cap=3, pre=[('a', 3)], release_order=[2, 1, 0], acquirers=['a', 'a']))
    return cfgs


def _sched_job(job):
    cfg, bound, cap_execs = job
    st = explore.explore(lambda p: sched_scenario(cfg, p), bound, forced_cost=0,
                         max_execs=cap_execs)
    return cfg, st


def replay(data):
    if data.get('kind') == 'crt':
        from . import C20
        return C20.replay(data)
    if data['kind'] == 'bfs':
        from ..detsched import Sched
        out = {}

        def go():
            n = data['n']
            impl, model = SlidingWindowSemaphore(n), RefWindow(n)
            trace = []
            for op in data['history']:
                op = tuple(op)
                if op[0] == 'acq':
                    trace.append((op, _call(impl.acquire, op[1], False), model.acquire(op[1]),
                                  _call(impl.current_count), model.capacity()))
                else:
                    trace.append((op, _call(impl.release, op[1], op[2]), model.release(op[1], op[2]),
                                  _call(impl.current_count), model.capacity()))
            out['trace'] = trace
        Sched().run_inline(go)
        bad = [t for t in out['trace'] if (t[1][0] != t[2][0] and t[2][0] != 'undefined') or t[3] != ('ok', t[4])]
        return {'trace': out['trace'], 'violations': bad, 'digest': repr(out['trace'])}
    x = sched_scenario(data['cfg'], data['choices'])
    return {'outcome': x.outcome, 'violations': x.violations, 'digest': repr(x.decisions)}


def run(tier, seed):
    t0 = time.time()
    depth = 9 if tier == 'quick' else 10
    viol = []
    cov = {'parts': {}}
    states = transitions = 0
    samples = []
    out = {}

    def go():
        nonlocal states, transitions
        for n in (1, 2, 3):
            for ntags in (1, 2, 3):
                d = depth if ntags < 3 else depth - 2
                r = window_bfs(n, ntags, d, deadline=t0 + (60 if tier == 'quick' else 300))
                states += r.states
                transitions += r.transitions
                cov['parts'][f'window n={n} tags={ntags}'] = {
                    'states': r.states, 'transitions': r.transitions,
                    'depth': r.depth_completed, 'caps_hit': r.caps_hit,
                    'distinct_observations': len(r.distinct_obs)}
                samples.extend(r.samples[:1])
                for v in r.violations:
                    viol.append({'sig': v['sig'], 'msg': v['msg'] + f' history={v["history"]}',
                                 'replay': {'kind': 'bfs', 'n': n, 'history': v['history']}})
            r = bounded_executor_bfs(n, 1, 2, 5 if tier == 'quick' else 6, None)
            states += r.states
            transitions += r.transitions
            cov['parts'][f'bounded executor cap={n}'] = {'states': r.states, 'transitions': r.transitions, 'depth': r.depth_completed}
            for v in r.violations:
                viol.append({'sig': v['sig'], 'msg': v['msg'] + f' history={v["history"]}',
                             'replay': {'kind': 'bfs-executor', 'n': n, 'history': v['history']}})
            r = task_bfs(n, depth, None)
            states += r.states
            transitions += r.transitions
            cov['parts'][f'task n={n}'] = {'states': r.states, 'transitions': r.transitions}
            for v in r.violations:
                viol.append({'sig': v['sig'], 'msg': v['msg'], 'replay': {'kind': 'bfs-task', 'n': n, 'history': v['history']}})
    Sched().run_inline(go)

    # (a3) "every semaphore of the manager": the CRT manager's permit semaphore, through C20's stub
    # harness (sequences with one failing construction step, incl. a raising on_queued subscriber)
    from . import C20
    ccfgs = [c for c in C20.configs('quick') if any(o != 'ok' for _, o in c['transfers'])][::7]
    cst, cviol = C20._job({'cfgs': ccfgs, 'bound': {'env': 1, 'sched': 0}, 'max_execs': 20000})
    cov['parts']['CRT manager permit semaphore'] = {'sequences': len(ccfgs), 'executions': cst.executions}
    for v in cviol:
        if v['sig'] in ('C20:permit-released-without-acquire', 'C20:permit-leak'):
            viol.append({'sig': 'C12:crt:' + v['sig'].split(':', 1)[1], 'msg': v['msg'], 'replay': v['replay']})
    # (b) schedules
    cfgs = sched_configs(tier)
    jobs = [(c, 2, 400000 if tier == 'quick' else 600000) for c in cfgs]   # thorough: more and larger configurations, same preemption bound
    res = explore.run_jobs(_sched_job, jobs)
    tot = explore.Stats()
    for cfg, st in res:
        tot.merge(st)
        cov['parts'][f'sched {cfg}'] = st.to_dict()
        for ch, v in st.violations:
            viol.append({'sig': v['sig'], 'msg': v['msg'] + f' cfg={cfg}',
                         'replay': {'kind': 'sched', 'cfg': cfg, 'choices': ch}})
    # (c) end-to-end quiescence
    e2e = common.semaphore_quiescence(tier, seed)
    cov['parts']['end-to-end quiescence'] = e2e['coverage']
    viol.extend(e2e['violations'])

    cov.update({
        'states': states + tot.states + e2e['coverage'].get('states', 0),
        'transitions': transitions + tot.transitions + e2e['coverage'].get('transitions', 0),
        'traces_validated_against_impl': tot.executions + e2e['coverage'].get('executions', 0),
        'evaluations': transitions + tot.executions,
        'distinct_nontrivial': len(tot.signatures) + sum(p.get('distinct_observations', 0) for p in cov['parts'].values() if isinstance(p, dict)),
        'rule': 'BFS: every acquire/release/count history over <=3 tags, capacities 1..3, de-duplicated on (reference state, full implementation state); '
                'sched: every schedule (no preemption bound) of blocking acquirers + out-of-order releasers; distinct = distinct (op, observation) pairs / distinct schedule outcomes',
        'samples': samples[:3] + tot.samples[:2],
        'exhaustive': not any(p.get('caps_hit') for p in cov['parts'].values() if isinstance(p, dict)),
        'bfs_depth': depth,
        'sched_bound': 'preemptions <= %d, forced switches free' % (2 if tier == 'quick' else 4),
        'caps_hit': [c for p in cov['parts'].values() if isinstance(p, dict) for c in (p.get('caps_hit') or [])],
    })
    return {'coverage': cov, 'violations': viol, 'level': 'model_checking',
            'assumptions': ['double release of a valid token is outside the statement and outside the alphabet',
                            'Condition.notify wakes waiters in FIFO order (CPython); a notified waiter still has to win the lock (barging explored)']}
