"""C13 - bandwidth limit respected without starving or over-throttling.

Real LeakyBucket + BandwidthLimitedStream objects on a virtual clock, n stream
threads each running a script of (think time, read size); every arrival order
in virtual time (ties), preemptions within the bound, late wake-ups and
abandonment (the stream's transfer fails while it waits) as deviations.
One end-to-end wiring run through the manager with max_bandwidth.
"""
import itertools
import time

from .. import harness, explore, detsched
from ..detsched import Sched, DetClock
from . import common, catalog

harness.install()
import s3transfer.bandwidth as bw  # noqa: E402

TH = 4            # bytes_threshold of the streams (scaled from 256 KiB)
M = 4.0           # max_rate: TH bytes per virtual second
EPS = 1e-9


class Boom(Exception):
    pass


class Coord:
    def __init__(self):
        self.exception = None


class Zeros:
    def read(self, n):
        return b'\0' * n

    def seek(self, where, whence=0):
        pass

    def close(self):
        pass


class BucketView:
    """the shared bucket as seen by one stream: records what that stream was charged"""

    def __init__(self, bucket, charged, i):
        self._b, self._charged, self._i = bucket, charged, i

    def consume(self, amt, request_token):
        r = self._b.consume(amt, request_token)
        self._charged[self._i] += amt
        return r

    def cancel_scheduled_consumption(self, request_token):
        return self._b.cancel_scheduled_consumption(request_token)


def scripts_for(family):
    r = []
    if family == 'sat':
        for size in (1, 2, 4, 8):
            r.append([(0, size)] * (8 if size < 4 else 5))
    elif family == 'slow':          # demand strictly below the limit: never delayed
        for size in (4, 8):
            r.append([(1.5 * size / M, size)] * 4)
        r.append([(3.0, 2), (3.0, 2), (3.0, 4)])
    elif family == 'mix':
        r.append([(0, 4), (0, 1), (2.0, 8), (0, 4)])
        r.append([(1.0, 4), (0, 4), (0, 4), (1.0, 8)])
        r.append([(0, 8), (0.5, 2), (0, 2), (0, 4)])
        r.append([(0, 4), (1.0, 4), (1.0, 4), (1.0, 4)])     # exactly amount/m apart
    elif family == 'retry':
        # request bodies as botocore drives them: rewound and re-read on a retry, closed at the
        # end (bytes below the threshold are charged on close), read with limiting switched off
        # while the data is not being transferred (checksums)
        r.append([(0, 3), ('seek',), (0, 3), ('seek',), (0, 3), ('seek',), (0, 3), ('close',)])
        r.append([(0, 2), ('close',)])
        r.append([('off',), (0, 8), ('on',), ('seek',), (0, 3), (0, 3), ('close',)])
        r.append([(0, 4), (0, 3), ('seek',), (0, 4), (0, 3), ('close',)])
        r.append([(0, 1), ('seek',)] * 9 + [('close',)])
    return r


def run_streams(cfg, prefix):
    """cfg: dict(scripts=[script,...], abandon=bool, late=bool)"""
    harness.install()
    s = Sched(prefix=prefix, horizon=6000)
    s.time_preempt = True
    clock = DetClock()
    ev = []            # (t, kind, stream, value)
    st = {'errors': []}
    n = len(cfg['scripts'])

    class StreamClock:
        """time_utils of one stream: records sleeps, lets the explorer abandon
        the waiting stream or wake it late"""

        def __init__(self, i, coord, probe=False):
            self.i = i
            self.coord = coord
            self.probe = probe

        def time(self):
            return s.time()

        def sleep(self, d):
            t = s.time()
            waiting = st.setdefault('waiting', {})
            ev.append((t, 'sleep', self.i, d))
            # live waiters at this moment: an upper bound that does not depend on when
            # exactly a refused stream reaches its sleep - every other stream that is
            # inside a read() and whose transfer has not failed may hold a scheduled share
            my_start = st['read_start'][self.i]
            live = sum(a for (j, a, b, e) in st['sessions']
                       if j != self.i and (e is None or e >= my_start))
            own = st['pending_amt'][self.i]
            bound = (live + own) / M
            if d > bound + EPS:
                st['errors'].append(('C13:wait-longer-than-needed',
                                     f'stream {self.i} told to wait {d:.4f}s at t={t:.4f} for {own} bytes while live waiters hold '
                                     f'{live} bytes: the limit needs only {bound:.4f}s'))
            st['sleeps'][self.i] += 1
            if st['sleeps'][self.i] > 1:
                st['errors'].append(('C13:more-than-one-wait', f'stream {self.i} waited {st["sleeps"][self.i]} times for one read'))
            waiting[self.i] = (own, True)
            extra = 0.0
            if cfg.get('abandon') and not self.probe and s.choose(2, 'abandon'):
                self.coord.exception = Boom(f'transfer of stream {self.i} failed')
                st['failed'][self.i] = True
                waiting[self.i] = (own, False)
                ev.append((t, 'abandon', self.i, 0))
            elif cfg.get('late') and not self.probe and s.choose(2, 'late'):
                extra = 0.25
            s.sleep(d + extra)
            waiting.pop(self.i, None)

    def main():
        bucket = bw.LeakyBucket(M, time_utils=clock)
        st['sleeps'] = [0] * n
        st['charged'] = [0] * (n + 1)
        st['moved'] = [0] * n
        st['pending_amt'] = [0] * n
        st['raised'] = [None] * n
        st['in_read'] = {}
        st['failed'] = {}
        st['sessions'] = []          # (stream, amount, start step, end step) of every read() call
        st['read_start'] = [0] * n
        threads = []

        def runner(i, script):
            coord = Coord()
            stream = bw.BandwidthLimitedStream(Zeros(), BucketView(bucket, st['charged'], i), coord,
                                               time_utils=StreamClock(i, coord), bytes_threshold=TH)
            seen = 0
            enabled = True
            for op in script:
                if op[0] == 'seek':
                    stream.seek(0)
                    continue
                if op[0] == 'off':
                    stream.signal_not_transferring()
                    enabled = False
                    continue
                if op[0] == 'on':
                    stream.signal_transferring()
                    enabled = True
                    continue
                closing = op[0] == 'close'
                think, size = (0, 0) if closing else op
                if think:
                    s.sleep(think)
                if not enabled:
                    d = stream.read(size)
                    ev.append((s.time(), 'freeread', i, len(d)))
                    continue
                st['sleeps'][i] = 0
                # what the stream will ask the bucket for if it reaches the threshold
                seen_before = seen
                st['pending_amt'][i] = seen + size
                t0 = s.time()
                st['in_read'][i] = seen + size
                st['read_start'][i] = s.step
                sess = [i, seen + size, s.step, None]
                st['sessions'].append(sess)
                try:
                    if closing:
                        stream.close()
                        d = b''
                    else:
                        d = stream.read(size)
                except Boom as e:
                    sess[3] = s.step
                    st['in_read'].pop(i, None)
                    st['raised'][i] = e
                    if coord.exception is not e:
                        st['errors'].append(('C13:wrong-error', f'stream {i} raised {e!r}'))
                    ev.append((s.time(), 'raise', i, 0))
                    return
                sess[3] = s.step
                st['in_read'].pop(i, None)
                if coord.exception is not None and st['sleeps'][i] > 0:
                    st['errors'].append(('C13:read-returned-after-failure',
                                         f'stream {i}: transfer failed while the read was waiting, yet the read returned data'))
                seen = seen + size
                if seen >= TH or closing:
                    seen = 0
                st['moved'][i] += len(d)
                # every byte moved while limiting is on is charged exactly once: when the stream's
                # uncharged bytes reach the threshold, or when the stream is closed
                # (the property grants "a burst of a few read-thresholds per active stream": the
                #  accounting is judged with a slack of two thresholds in either direction, not
                #  exactly - when and in which portions a stream charges is the mechanism's business)
                gap = st['moved'][i] - st['charged'][i]
                if gap > 2 * TH or gap < -2 * TH:
                    st['errors'].append(('C13:bytes-not-charged' if gap > 0 else 'C13:bytes-charged-twice',
                                         f'stream {i}: {st["moved"][i]} bytes moved under the limit, {st["charged"][i]} charged to the bucket '
                                         f'(threshold {TH}; the reference stream would have {seen} pending)' + (' (after close)' if closing else '')))
                if closing:
                    ev.append((s.time(), 'close', i, 0))
                    return
                ev.append((s.time(), 'read', i, len(d)))
        for i, sc in enumerate(cfg['scripts']):
            threads.append(s.spawn(lambda i=i, sc=sc: runner(i, sc), f'stream{i}'))
        for t in threads:
            s.point('join', t.name, enabled=lambda t=t: t.state == detsched.DONE)
        # probe: long after everything finished, a lone small read must not be delayed
        # ("throttling never ... permanently slows transfers")
        if not any(st['raised']) or True:
            s.sleep(10000.0)
            pclock = StreamClock(n, Coord(), probe=True)
            st['sleeps'].append(0)
            st['pending_amt'].append(TH)
            st['read_start'].append(s.step)
            probe = bw.BandwidthLimitedStream(Zeros(), bucket, pclock.coord, time_utils=pclock, bytes_threshold=TH)
            t0 = s.time()
            probe.read(TH)
            if s.time() != t0:
                st['errors'].append(('C13:permanently-slowed',
                                     f'after 10000 s of silence a lone read of {TH} bytes (limit {M} B/s) was delayed by {s.time() - t0:.3f}s'))
        try:
            st['total_wait'] = bucket._consumption_scheduler._total_wait
        except AttributeError:
            st['total_wait'] = None

    s.run(main)
    x = explore.Exec()
    x.decisions = [d.as_tuple() for d in s.decisions]
    x.outcome = s.outcome
    x.steps = s.step
    x.extra['max_threads'] = s.max_threads
    errs = list(st['errors'])
    if s.outcome != 'ok':
        errs.append((f'C13:{s.outcome}', str(s.outcome_detail)))
    crashed = [t for t in s.threads if t.exc is not None]
    if crashed:
        errs.append(('C13:exception', f'{crashed[0].name}: {crashed[0].exc!r}'))
    # (O3) rate bound over every pair of event times
    reads = [(t, v) for (t, k, i, v) in ev if k == 'read']
    times = sorted({t for t, _ in reads})
    maxread = max(op[1] for sc in cfg['scripts'] for op in sc if len(op) == 2)
    B = n * (2 * TH + maxread)
    factor = 1.0 if cfg.get('saturated') else 1.25
    worst = None
    if not cfg.get('late'):
        for a in range(len(times)):
            for b in range(a + 1, len(times)):
                t1, t2 = times[a], times[b]
                tot = sum(v for t, v in reads if t1 < t <= t2)
                lim = factor * M * (t2 - t1) + B
                if tot > lim + EPS and worst is None:
                    worst = (t1, t2, tot, lim)
        # also instantaneous bursts: bytes returned at one instant
        for t1 in times:
            tot = sum(v for t, v in reads if t == t1)
            if tot > B + EPS and worst is None:
                worst = (t1, t1, tot, B)
        if worst:
            errs.append(('C13:rate-exceeded',
                         f'{worst[2]} bytes returned in ({worst[0]:.3f},{worst[1]:.3f}] > {factor}*{M}*T + burst {B} = {worst[3]:.2f} (n={n})'))
    # (O4) demand below the limit is never delayed
    # (only meaningful when no runnable stream was held back while time passed: that changes the arrival pattern)
    if cfg.get('below_limit') and not s.user.get('time_preempted') and any(k == 'sleep' for (_, k, _, _) in ev):
        e = next(e for e in ev if e[1] == 'sleep')
        errs.append(('C13:delayed-below-limit', f'stream {e[2]} was put to sleep {e[3]:.3f}s at t={e[0]:.3f} although demand stays below the limit'))
    seen = set()
    for sig, msg in errs:
        if sig not in seen:
            seen.add(sig)
            x.violations.append({'sig': sig, 'msg': msg})
    x.signature = explore.sig_hash(tuple(ev))
    x.sample = {'scripts': cfg['scripts'], 'events': [(round(t, 3), k, i, v if k != 'sleep' else round(v, 3)) for t, k, i, v in ev][:14]}
    return x


def configs(tier):
    cfgs = []
    sat, slow, mix = scripts_for('sat'), scripts_for('slow'), scripts_for('mix')
    # n = 1
    for sc in sat:
        cfgs.append(dict(scripts=[sc], saturated=True))
    for sc in slow:
        cfgs.append(dict(scripts=[sc], below_limit=True))
    for sc in mix:
        cfgs.append(dict(scripts=[sc]))
    # n = 2, 3: all saturated combos, mixes
    for n in (2, 3):
        pool = sat[1:] if tier == 'quick' else sat
        for combo in itertools.combinations_with_replacement(range(len(pool)), n):
            cfgs.append(dict(scripts=[pool[i][:5] for i in combo], saturated=True))
        mpool = mix if n == 2 else mix[:2]
        for combo in itertools.combinations_with_replacement(range(len(mpool)), n):
            cfgs.append(dict(scripts=[mpool[i] for i in combo]))
    # retried / closed / partly unthrottled bodies
    rt = scripts_for('retry')
    for sc in rt:
        cfgs.append(dict(scripts=[sc]))
    for a, b in ((0, 0), (0, 3), (2, 3), (4, 1)):
        cfgs.append(dict(scripts=[rt[a], rt[b]]))
    cfgs.append(dict(scripts=[rt[0], sat[2][:4]], abandon=True))
    cfgs.append(dict(scripts=[rt[3], rt[0], sat[1][:5]]))
    # staggered slow streams: merged demand still below the limit
    cfgs.append(dict(scripts=[[(2.0, 2), (4.0, 2), (4.0, 2)], [(4.0, 2), (4.0, 2), (4.0, 2)]], below_limit=True))
    # abandonment / late wake-ups
    for n in (2, 3):
        cfgs.append(dict(scripts=[sat[2][:4]] * n, abandon=True, saturated=True))
        cfgs.append(dict(scripts=[sat[3][:3]] + [sat[2][:4]] * (n - 1), abandon=True, saturated=True))
        cfgs.append(dict(scripts=[sat[2][:4]] * n, late=True))
    cfgs.append(dict(scripts=[mix[0], mix[1]], abandon=True))
    # n = 4..8 identical saturated scripts
    for n in ((4, 6, 8) if tier == 'quick' else (4, 5, 6, 7, 8)):
        cfgs.append(dict(scripts=[sat[2][:4]] * n, saturated=True, big=True))
        cfgs.append(dict(scripts=[sat[2][:3]] * n, abandon=True, saturated=True, big=True))
    return cfgs


def _job(job):
    cfg, bound, cap = job
    st = explore.explore(lambda p: run_streams(cfg, p), bound, forced_cost=1, max_execs=cap)
    return cfg, st


def replay(data):
    if data.get('kind') == 'streams':
        x = run_streams(data['cfg'], data['choices'])
        return {'outcome': x.outcome, 'violations': x.violations, 'sample': x.sample, 'digest': repr(x.decisions) + str(x.signature)}
    return common.replay_manager(data)


def run(tier, seed):
    cfgs = configs(tier)
    jobs = []
    for c in cfgs:
        if c.get('big'):
            b = {'sched': 0 if tier == 'quick' else 1, 'env': 1}
        else:
            b = {'sched': 1 if tier == 'quick' else 2, 'env': 1 if tier == 'quick' else 2}
        jobs.append((c, b, 60000 if tier == 'quick' else 600000))
    res = explore.run_jobs(_job, jobs, chunksize=2)
    tot = explore.Stats()
    viol = []
    for cfg, st in res:
        tot.merge(st)
        for ch, v in st.violations:
            viol.append({'sig': v['sig'], 'msg': v['msg'] + f' | scripts={cfg["scripts"]} flags={ {k: v for k, v in cfg.items() if k != "scripts"} } choices={ch}',
                         'replay': {'kind': 'streams', 'cfg': cfg, 'choices': ch}})
    # wiring: both data paths of a manager with max_bandwidth are throttled by the same bucket
    wjobs = catalog.jobs_for('C13', tier, seed)
    wcov, wviol = common.run_catalogue(wjobs, tier, 'C13')
    viol.extend(wviol)
    cov = {
        'states': tot.states + wcov['states'], 'transitions': tot.transitions + wcov['transitions'],
        'traces_validated_against_impl': tot.executions + wcov['executions'],
        'evaluations': tot.executions + wcov['executions'],
        'distinct_nontrivial': len(tot.signatures) + wcov['distinct_outcomes'],
        'rule': 'stream harnesses: every schedule within the preemption bound (ties in virtual time are forced switches explored as deviations) x '
                'abandon / late wake-up choices at every wait, on the real LeakyBucket/BandwidthLimitedStream with threshold scaled to 4 bytes and max_rate 4 B/s; '
                'distinct = distinct (time, event) traces',
        'samples': tot.samples[:3], 'caps_hit': tot.caps_hit + wcov['caps_hit'], 'exhaustive': not (tot.caps_hit or wcov['caps_hit']),
        'harnesses': len(cfgs), 'max_threads': tot.max_threads, 'manager_wiring': wcov,
        'burst_constant': 'B(n) = n * (2*threshold + max_read)',
    }
    return {'coverage': cov, 'violations': viol, 'level': 'model_checking',
            'assumptions': ['virtual time advances only when every thread is blocked (computation is instantaneous)',
                            'burst allowance B(n) = n*(2*threshold + max_read): one threshold of not-yet-charged bytes, one charged grant and one read in flight per stream',
                            '"demand below the limit" = every consume arrives at least amount/(0.8*max) after the previous one; exact-equality arrivals are exercised for the rate bound but not for the never-delayed clause (float rounding of the EMA)',
                            'n = 4..8 only with identical saturated scripts']}
