"""C14 - part planning tiles the object and respects S3 limits.

(i)   every (size, threshold, chunk) of a scaled-down domain through the real
      submission tasks (manager: upload path/streams, download, copy; legacy
      S3Transfer; process-pool submitter) with a recording client;
(ii)  ChunksizeAdjuster exhaustively on scaled limits;
(iii) real scale: explicit boundary set on the planning functions and through
      the real upload/copy submission tasks in plan-only mode (no bytes moved).
"""
import itertools
import math
import os
import re
import time

from .. import harness, explore, detsched
from ..detsched import Sched
from ..env.s3 import FakeS3, FakeClient
from ..env.fs import FaultyOSUtils, ScratchDir, SourceStream, SinkStream
from . import common, frontends

harness.install()
from s3transfer.manager import TransferConfig, TransferManager  # noqa: E402
from s3transfer.futures import NonThreadedExecutor  # noqa: E402
from s3transfer import utils as U  # noqa: E402

MiB = 1024 ** 2
GiB = 1024 ** 3
TiB = 1024 ** 4


def iceil(a, b):
    return -(-a // b)


def check_plan(kind, size, t, c_eff, calls, multipart_expected=None):
    """calls: list of recorded fake-S3 call dicts of one transfer. Returns list of (sig,msg)."""
    out = []
    ops = [c['op'] for c in calls]
    if kind == 'download':
        gets = [c for c in calls if c['op'] == 'GetObject']
        ranged = [c for c in gets if c['kwargs'].get('Range') is not None]
        multipart = bool(ranged)
        if multipart_expected is not None and multipart != multipart_expected:
            out.append(('C14:download:multipart-decision', f'size={size} threshold={t}: ranged={multipart}'))
        if multipart:
            if len(ranged) != len(gets):
                out.append(('C14:download:mixed', 'ranged and unranged GetObject in one transfer'))
            pos = 0
            rs = []
            for g in ranged:
                m = re.fullmatch(r'bytes=(\d+)-(\d*)', g['kwargs']['Range'])
                a = int(m.group(1))
                b = int(m.group(2)) if m.group(2) else size - 1
                rs.append((a, b))
            rs.sort()
            for i, (a, b) in enumerate(rs):
                if a != pos:
                    out.append(('C14:download:ranges-not-consecutive', f'size={size} c={c_eff}: ranges {rs[:6]}... gap/overlap at {pos}'))
                    break
                if b < a and size > 0:
                    out.append(('C14:download:empty-range', f'size={size} c={c_eff}: {rs}'))
                    break
                pos = b + 1
            else:
                if pos != size and size > 0:
                    out.append(('C14:download:ranges-do-not-end-at-last-byte', f'size={size} c={c_eff}: end {pos}'))
            if rs and rs[-1][1] != size - 1 and size > 0:
                out.append(('C14:download:last-range', f'size={size}: last range {rs[-1]}'))
        else:
            if len(gets) != 1:
                out.append(('C14:download:single', f'{len(gets)} GetObject for single download'))
    elif kind in ('copy', 'upload'):
        partop = 'UploadPartCopy' if kind == 'copy' else 'UploadPart'
        parts = [c for c in calls if c['op'] == partop]
        multipart = 'CreateMultipartUpload' in ops
        if multipart_expected is not None and multipart != multipart_expected:
            out.append((f'C14:{kind}:multipart-decision', f'size={size} threshold={t}: multipart={multipart}'))
        if multipart:
            nums = sorted(p['kwargs']['PartNumber'] for p in parts)
            if nums != list(range(1, len(nums) + 1)):
                out.append((f'C14:{kind}:part-numbers', f'size={size}: {nums[:10]}'))
            byn = sorted(parts, key=lambda p: p['kwargs']['PartNumber'])
            pos = 0
            for p in byn:
                if kind == 'copy':
                    m = re.fullmatch(r'bytes=(\d+)-(\d+)', p['kwargs'].get('CopySourceRange', ''))
                    if not m:
                        out.append(('C14:copy:bad-range', str(p['kwargs'].get('CopySourceRange'))))
                        break
                    a, b = int(m.group(1)), int(m.group(2))
                else:
                    a, b = pos, pos + p['body_len'] - 1
                if a != pos or b < a:
                    out.append((f'C14:{kind}:ranges-not-consecutive', f'size={size} c={c_eff}: part {p["kwargs"]["PartNumber"]} covers ({a},{b}), expected start {pos}'))
                    break
                if c_eff is not None and (b - a + 1) > c_eff:
                    out.append((f'C14:{kind}:part-too-large', f'part {p["kwargs"]["PartNumber"]} has {b-a+1} bytes, chunk {c_eff}'))
                    break
                pos = b + 1
            else:
                if pos != size:
                    out.append((f'C14:{kind}:parts-do-not-cover', f'size={size} c={c_eff}: parts cover {pos} bytes'))
        else:
            single = 'CopyObject' if kind == 'copy' else 'PutObject'
            if ops.count(single) != 1 or parts:
                out.append((f'C14:{kind}:single', f'ops {ops[:8]}'))
    return out


def plan_through_manager(kind, size, t, c, src='path', adj=None, plan_only=False, scratch=None):
    """Run one transfer inline on the real manager; returns (calls, outcome)."""
    s = Sched()
    res = {}

    def main():
        s3 = FakeS3(s)
        client = FakeClient(s3, s)
        client.plan_only = plan_only
        osu = FaultyOSUtils(s)
        harness.set_adjuster(adj)
        cfg = TransferConfig(multipart_threshold=t, multipart_chunksize=c, io_chunksize=max(c, 1))
        m = TransferManager(client, cfg, osu, executor_cls=NonThreadedExecutor)
        try:
            if kind == 'download':
                if plan_only:
                    client.virtual_sizes['k'] = size
                else:
                    s3.put('bkt', 'k', harness.payload(size))
                f = m.download('bkt', 'k', SinkStream(s, seekable=True))
            elif kind == 'copy':
                if plan_only:
                    client.virtual_sizes['k'] = size
                else:
                    s3.put('bkt', 'k', harness.payload(size))
                f = m.copy({'Bucket': 'bkt', 'Key': 'k'}, 'bkt', 'dst')
            else:
                if src == 'path':
                    if plan_only:
                        osu.get_file_size = lambda fn: size
                        fileobj = '/nonexistent/virtual-file'
                    else:
                        fileobj = os.path.join(scratch.path, 'src')
                        with open(fileobj, 'wb') as fh:
                            fh.write(harness.payload(size))
                elif src.startswith('seekable+'):
                    # a seekable stream positioned past its start: the object is what follows the position
                    off = int(src.split('+')[1])
                    fileobj = SourceStream(s, harness.payload(size + off), seekable=True, start=off)
                else:
                    fileobj = SourceStream(s, harness.payload(size), seekable=(src == 'seekable'))
                f = m.upload(fileobj, 'bkt', 'dst')
            try:
                f.result()
                res['outcome'] = 'ok'
            except Exception as e:  # noqa
                res['outcome'] = repr(e)
        finally:
            harness.set_adjuster(None)
        res['calls'] = s3.calls
    s.run_inline(main)
    return res['calls'], res['outcome']


def plan_history(trs, t, c, adj, scratch):
    """Several transfers, one after the other, on ONE manager / TransferConfig.
    trs: [(kind, size, src)] -> [(calls of that transfer, outcome)]"""
    s = Sched()
    res = []

    def main():
        s3 = FakeS3(s)
        client = FakeClient(s3, s)
        osu = FaultyOSUtils(s)
        harness.set_adjuster(adj)
        cfg = TransferConfig(multipart_threshold=t, multipart_chunksize=c, io_chunksize=max(c, 1))
        m = TransferManager(client, cfg, osu, executor_cls=NonThreadedExecutor)
        try:
            for i, (kind, size, src) in enumerate(trs):
                cut = len(s3.calls)
                if kind in ('download', 'copy'):
                    s3.put('bkt', f'k{i}', harness.payload(size))
                if kind == 'download':
                    f = m.download('bkt', f'k{i}', SinkStream(s, seekable=True))
                elif kind == 'copy':
                    f = m.copy({'Bucket': 'bkt', 'Key': f'k{i}'}, 'bkt', f'dst{i}')
                elif src == 'path':
                    fileobj = os.path.join(scratch.path, f'src{i}')
                    with open(fileobj, 'wb') as fh:
                        fh.write(harness.payload(size))
                    f = m.upload(fileobj, 'bkt', f'dst{i}')
                else:
                    f = m.upload(SourceStream(s, harness.payload(size), seekable=(src == 'seekable')), 'bkt', f'dst{i}')
                try:
                    f.result()
                    oc = 'ok'
                except Exception as e:  # noqa
                    oc = repr(e)
                res.append((s3.calls[cut:], oc))
        finally:
            harness.set_adjuster(None)
    s.run_inline(main)
    return res


def history_cases(tier):
    """the plan of a transfer does not depend on what the manager planned before: a first transfer
    whose chunk size HAD to be raised (scaled part limit 3) is followed by transfers that need no
    adjustment"""
    adj = {'min_size': 1, 'max_size': 1000, 'max_parts': 3}
    viol = []
    n = 0
    sd = ScratchDir('c14h')
    try:
        firsts = [('upload', 'path'), ('upload', 'seekable'), ('upload', 'nonseekable'), ('copy', None)]
        seconds = [('upload', 'path'), ('upload', 'nonseekable'), ('copy', None), ('download', None)]
        for (k1, s1), (k2, s2) in itertools.product(firsts, seconds):
            for c, size1, size2 in ((2, 9, 6), (2, 13, 5), (1, 7, 3), (3, 20, 9)):
                t = c
                out = plan_history([(k1, size1, s1), (k2, size2, s2), (k1, size2, s1)], t, c, adj, sd)
                n += 1
                for (kind, size, src), (calls, oc) in list(zip([(k1, size1, s1), (k2, size2, s2), (k1, size2, s1)], out))[1:]:
                    ceff = c
                    if kind != 'download':
                        while iceil(size, ceff) > adj['max_parts']:
                            ceff *= 2
                    errs = check_plan(kind, size, t, ceff, calls, multipart_expected=(size >= t))
                    if kind != 'download' and size >= t and src != 'nonseekable':
                        nparts = sum(1 for x in calls if x['op'] in ('UploadPart', 'UploadPartCopy'))
                        if nparts != iceil(size, ceff):
                            errs.append((f'C14:{kind}:chunksize-changed-needlessly',
                                         f'{nparts} parts for size {size}: the configured chunk size {c} (effective {ceff}) was not used'))
                    if oc != 'ok':
                        errs.append((f'C14:{kind}:failed', oc))
                    for sig, msg in errs:
                        viol.append({'sig': sig, 'msg': msg + f' [after a {k1}/{s1} of size {size1} on the same manager; this transfer: {kind}/{src} size={size} threshold={t} chunk={c}]',
                                     'replay': None})
    finally:
        sd.cleanup()
    return n, viol[:6]


def _sweep_job(job):
    kind, src, sizes, ts, cs = job
    sd = ScratchDir('c14')
    viol = []
    n = 0
    sigs = set()
    sample = None
    try:
        adj = {'min_size': 1, 'max_size': 10 ** 6, 'max_parts': 10 ** 6}
        for size, t, c in itertools.product(sizes, ts, cs):
            calls, oc = plan_through_manager(kind, size, t, c, src=src, adj=adj, scratch=sd)
            n += 1
            errs = check_plan(kind, size, t, c, calls, multipart_expected=(size >= t))
            if oc != 'ok':
                errs.append((f'C14:{kind}:failed', f'size={size} t={t} c={c}: {oc}'))
            nparts = sum(1 for x in calls if x['op'] in ('UploadPart', 'UploadPartCopy') or (x['op'] == 'GetObject'))
            sigs.add((kind, size >= t, nparts, size % c == 0))
            if sample is None and nparts >= 3:
                sample = {'kind': kind, 'src': src, 'size': size, 't': t, 'c': c,
                          'requests': [(x['op'], x['kwargs'].get('Range') or x['kwargs'].get('CopySourceRange') or x.get('body_len')) for x in calls][:8]}
            for sig, msg in errs:
                viol.append({'sig': sig, 'msg': msg + f' (kind={kind} src={src} size={size} threshold={t} chunk={c})',
                             'replay': {'kind': 'plan', 'args': [kind, size, t, c, src]}})
            if len(viol) > 5:
                break
    finally:
        sd.cleanup()
    return {'n': n, 'viol': viol[:5], 'sigs': sigs, 'sample': sample, 'requests': 0}


def adjuster_exhaustive(tier):
    viol = []
    n = 0
    sigs = set()
    for mn, mx, mp in itertools.product((2, 4), (8, 16), (3, 5)):
        adj = U.ChunksizeAdjuster(max_size=mx, min_size=mn, max_parts=mp)
        for cur in range(1, 25):
            for size in list(range(0, mx * mp + 2)) + [None]:
                r = adj.adjust_chunksize(cur, size)
                n += 1
                errs = []
                if not (mn <= r <= mx):
                    errs.append(('C14:adjuster:outside-limits', f'result {r} outside [{mn},{mx}]'))
                if size is not None and size <= mx * mp and size > 0 and iceil(size, r) > mp:
                    errs.append(('C14:adjuster:too-many-parts', f'result {r} gives {iceil(size, r)} parts > {mp}'))
                ok_as_is = mn <= cur <= mx and (size is None or size == 0 or iceil(size, cur) <= mp)
                if ok_as_is and r != cur:
                    errs.append(('C14:adjuster:changed-needlessly', f'{cur} satisfied all limits but became {r}'))
                sigs.add((r != cur, r == mn, r == mx))
                for sig, msg in errs:
                    viol.append({'sig': sig, 'msg': msg + f' (current={cur} size={size} min={mn} max={mx} max_parts={mp})',
                                 'replay': {'kind': 'adjuster', 'args': [mn, mx, mp, cur, size]}})
                if len(viol) > 5:
                    return n, viol[:5], sigs
    return n, viol, sigs


def boundary_sizes():
    cs = [1, 5 * MiB - 1, 5 * MiB, 5 * MiB + 1, 8 * MiB, 5 * GiB - 1, 5 * GiB, 5 * GiB + 1] + [2 ** j for j in (10, 20, 23, 30, 32, 33)]
    ks = [1, 2, 3, 9999, 10000, 10001, 20000, 20001]
    sizes = {0, 1, 5 * TiB - 1, 5 * TiB, 10000 * 5 * MiB - 1, 10000 * 5 * MiB, 10000 * 5 * MiB + 1,
             10000 * 8 * MiB - 1, 10000 * 8 * MiB, 10000 * 8 * MiB + 1}
    for c in cs:
        for k in ks:
            for d in (-1, 0, 1):
                v = k * c + d
                if 0 <= v <= 5 * TiB:
                    sizes.add(v)
    return sorted(sizes), cs


def real_scale_functions():
    viol = []
    n = 0
    sizes, cs = boundary_sizes()
    adj = U.ChunksizeAdjuster()
    sigs = set()
    for c in cs:
        for size in sizes:
            n += 1
            # calculate_num_parts (integer oracle)
            got = U.calculate_num_parts(size, c)
            exp = iceil(size, c)
            if got != exp:
                viol.append({'sig': 'C14:real:num-parts', 'msg': f'calculate_num_parts({size},{c})={got}, exact {exp}',
                             'replay': {'kind': 'fn', 'args': ['num_parts', size, c]}})
            if exp and exp <= 3:
                for i in range(exp):
                    rp = U.calculate_range_parameter(c, i, exp, total_size=size)
                    a = i * c
                    b = min(a + c, size) - 1
                    if rp != f'bytes={a}-{b}':
                        viol.append({'sig': 'C14:real:range-parameter', 'msg': f'calculate_range_parameter({c},{i},{exp},{size})={rp}, expected bytes={a}-{b}',
                                     'replay': {'kind': 'fn', 'args': ['range', c, i, exp, size]}})
            r = adj.adjust_chunksize(c, size)
            if not (5 * MiB <= r <= 5 * GiB):
                viol.append({'sig': 'C14:real:part-size-limits', 'msg': f'adjust_chunksize({c},{size})={r}', 'replay': {'kind': 'fn', 'args': ['adjust', c, size]}})
            elif size and iceil(size, r) > 10000 and size <= 5 * TiB:
                viol.append({'sig': 'C14:real:too-many-parts', 'msg': f'adjust_chunksize({c},{size})={r} gives {iceil(size, r)} parts',
                             'replay': {'kind': 'fn', 'args': ['adjust', c, size]}})
            elif 5 * MiB <= c <= 5 * GiB and (size == 0 or iceil(size, c) <= 10000) and r != c:
                viol.append({'sig': 'C14:real:changed-needlessly', 'msg': f'adjust_chunksize({c},{size})={r}', 'replay': {'kind': 'fn', 'args': ['adjust', c, size]}})
            sigs.add((r != c, size and iceil(size, r) >= 9999))
            if len(viol) > 5:
                return n, viol[:5], sigs
    return n, viol, sigs


def _real_plan_job(job):
    kind, size, c = job
    t0 = time.time()
    calls, oc = plan_through_manager(kind, size, 8 * MiB, c, src='path', adj=None, plan_only=True)
    r = U.ChunksizeAdjuster().adjust_chunksize(c, size)
    errs = check_plan(kind, size, 8 * MiB, r, calls, multipart_expected=(size >= 8 * MiB))
    nparts = sum(1 for x in calls if x['op'] in ('UploadPart', 'UploadPartCopy'))
    if nparts > 10000:
        errs.append((f'C14:real:{kind}:too-many-parts', f'{nparts} parts issued'))
    for x in calls:
        if x['op'] == 'UploadPart' and not (x['body_len'] <= 5 * GiB):
            errs.append((f'C14:real:{kind}:part-size', f'part of {x["body_len"]} bytes'))
            break
    if oc != 'ok':
        errs.append((f'C14:real:{kind}:failed', oc))
    return {'viol': [{'sig': s_, 'msg': m + f' (kind={kind} size={size} chunk={c})',
                      'replay': {'kind': 'realplan', 'args': [kind, size, c]}} for s_, m in errs[:3]],
            'n': 1, 'parts': nparts, 'sample': {'kind': kind, 'size': size, 'chunk': c, 'effective_chunk': r, 'parts': nparts}}


def replay(data):
    k = data['kind']
    a = data['args']
    if k == 'plan':
        sd = ScratchDir('c14')
        try:
            calls, oc = plan_through_manager(a[0], a[1], a[2], a[3], src=a[4],
                                             adj={'min_size': 1, 'max_size': 10 ** 6, 'max_parts': 10 ** 6}, scratch=sd)
        finally:
            sd.cleanup()
        errs = check_plan(a[0], a[1], a[2], a[3], calls, multipart_expected=(a[1] >= a[2]))
        return {'requests': [(x['op'], x['kwargs'].get('Range') or x['kwargs'].get('CopySourceRange') or x.get('body_len')) for x in calls],
                'violations': errs, 'digest': repr(errs)}
    if k == 'adjuster':
        mn, mx, mp, cur, size = a
        r = U.ChunksizeAdjuster(max_size=mx, min_size=mn, max_parts=mp).adjust_chunksize(cur, size)
        bad = not (mn <= r <= mx) or (size and size <= mx * mp and iceil(size, r) > mp)
        return {'result': r, 'violations': [r] if bad else [], 'digest': str(r)}
    if k == 'realplan':
        r = _real_plan_job(tuple(a))
        return {'violations': r['viol'], 'sample': r['sample'], 'digest': repr(r['sample'])}
    if k == 'frontend':
        return frontends.replay(data)
    return {'violations': [], 'digest': ''}


def run(tier, seed):
    viol = []
    cov = {'parts': {}}
    sizes = range(0, 25) if tier == 'quick' else range(0, 41)
    ts = (1, 2, 3, 5, 8, 12) if tier == 'quick' else range(1, 13)
    cs = (1, 2, 3, 5, 7, 12) if tier == 'quick' else range(1, 13)
    jobs = []
    for kind, src in (('download', None), ('copy', None), ('upload', 'path')):
        for chunk in range(0, len(list(sizes)), 5):
            jobs.append((kind, src, list(sizes)[chunk:chunk + 5], list(ts), list(cs)))
    for src in ('seekable', 'nonseekable', 'seekable+3', 'seekable+1'):
        for chunk in range(0, 17, 4):
            jobs.append(('upload', src, list(range(0, 17))[chunk:chunk + 4], list(ts), list(cs)))
    res = explore.run_jobs(_sweep_job, jobs)
    n1 = sum(r['n'] for r in res)
    sigs = set()
    samples = []
    for r in res:
        viol.extend(r['viol'])
        sigs |= r['sigs']
        if r['sample'] and len(samples) < 3:
            samples.append(r['sample'])
    cov['parts']['scaled domain through the manager'] = {'transfers': n1, 'distinct_shapes': len(sigs)}
    # other front-ends
    fe = frontends.planning_sweep(tier)
    cov['parts']['legacy S3Transfer + process-pool submitter'] = fe['coverage']
    viol.extend(fe['violations'])
    nh, vh = history_cases(tier)
    viol.extend(vh)
    cov['parts']['three-transfer histories on one manager'] = {'histories': nh}
    n2, v2, s2 = adjuster_exhaustive(tier)
    viol.extend(v2)
    cov['parts']['ChunksizeAdjuster scaled exhaustive'] = {'evaluations': n2}
    n3, v3, s3 = real_scale_functions()
    viol.extend(v3)
    cov['parts']['real-scale boundary set (functions)'] = {'evaluations': n3}
    # real scale through the submission tasks (plan only)
    rs = []
    for c in (5 * MiB, 8 * MiB):
        for k in (1, 2):
            base = k * 10000 * c
            for d in (-1, 0, 1):
                rs.append(base + d)
    rs += [5 * TiB, 5 * TiB - 1, 8 * MiB, 8 * MiB - 1, 8 * MiB + 1, 167772160001]
    rjobs = []
    for kind in ('copy', 'upload'):
        for size in (rs if tier == 'thorough' else rs[:8] + rs[-6:]):
            for c in ((8 * MiB,) if tier == 'quick' else (8 * MiB, 5 * MiB, 1 * MiB)):
                rjobs.append((kind, size, c))
    rres = explore.run_jobs(_real_plan_job, rjobs)
    for r in rres:
        viol.extend(r['viol'])
    cov['parts']['real scale through upload/copy submission (plan-only)'] = {
        'transfers': len(rjobs), 'part_requests_checked': sum(r['parts'] for r in rres)}
    samples += [r['sample'] for r in rres[:2]]
    total = n1 + n2 + n3 + nh + len(rjobs) + fe['coverage'].get('transfers', 0)
    cov.update({'evaluations': total, 'distinct_nontrivial': len(sigs) + len(s2) + len(s3) + len(rjobs),
                'rule': 'exhaustive over the scaled (size, threshold, chunk) grid x transfer kinds, exhaustive adjuster grid, explicit real-scale boundary set; '
                        'distinct = distinct (kind, multipart?, #parts, exact multiple?) shapes / adjuster outcomes / real-scale cases',
                'samples': samples, 'exhaustive': True,
                'states': total, 'transitions': total + sum(r['parts'] for r in rres), 'traces_validated_against_impl': total})
    return {'coverage': cov, 'violations': viol, 'level': 'exploration',
            'assumptions': ['for a non-seekable stream of unknown length only part sizes and tiling are checked (the part count cannot be bounded by the library)',
                            'downloads at real scale are checked on the planning functions only (no S3 part limit applies)']}
