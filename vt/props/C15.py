"""C15 - extra arguments reach exactly the S3 operations that accept them.

Exhaustive over: every transfer method of TransferManager, legacy S3Transfer
and the process-pool downloader x mode (single / multipart / ranged, size known
or discovered) x every allowed argument as a singleton + all allowed at once +
every subset of the checksum family x request_checksum_calculation + one
disallowed name.  The expectation table is written from the statement and the
installed botocore S3 model (operation input shapes), not from the code's
filter lists.
"""
import datetime
import itertools
import os

from .. import harness, explore, detsched
from ..detsched import Sched
from ..env.s3 import FakeS3, FakeClient, service_model, _OPS
from ..env.fs import ScratchDir, SinkStream, SourceStream, FaultyOSUtils
from ..harness import BUCKET, payload
from . import frontends

harness.install()
from s3transfer.manager import TransferManager, TransferConfig  # noqa: E402
from s3transfer.futures import NonThreadedExecutor  # noqa: E402
from s3transfer.subscribers import BaseSubscriber  # noqa: E402
import s3transfer as legacy  # noqa: E402
import s3transfer.processpool as pp  # noqa: E402

FULL_OBJECT = ['ChecksumCRC32', 'ChecksumCRC32C', 'ChecksumCRC64NVME', 'ChecksumSHA1', 'ChecksumSHA256']
STRUCTURAL = {'Bucket', 'Key', 'Body', 'UploadId', 'PartNumber', 'MultipartUpload', 'CopySource',
              'CopySourceRange', 'Range'}
HEAD_MAP = {'CopySourceIfMatch': 'IfMatch', 'CopySourceIfModifiedSince': 'IfModifiedSince',
            'CopySourceIfNoneMatch': 'IfNoneMatch', 'CopySourceIfUnmodifiedSince': 'IfUnmodifiedSince',
            'CopySourceSSECustomerKey': 'SSECustomerKey', 'CopySourceSSECustomerAlgorithm': 'SSECustomerAlgorithm',
            'CopySourceSSECustomerKeyMD5': 'SSECustomerKeyMD5'}
DEST_SSEC = {'SSECustomerKey', 'SSECustomerAlgorithm', 'SSECustomerKeyMD5'}


def members(op):
    return set(service_model().operation_model(op).input_shape.members)


def marker(name):
    """type-correct, recognisable value for an argument name"""
    for op in ('PutObject', 'CopyObject', 'GetObject', 'DeleteObject', 'CompleteMultipartUpload', 'CreateMultipartUpload'):
        sh = service_model().operation_model(op).input_shape.members.get(name)
        if sh is not None:
            break
    else:
        return f'v-{name}'
    t = sh.type_name
    if t == 'string':
        if getattr(sh, 'enum', None):
            if name == 'ChecksumAlgorithm':
                return 'SHA256'
            if name == 'ChecksumType':
                return 'COMPOSITE'
            return sh.enum[0]
        return f'v-{name}'
    if t == 'timestamp':
        return datetime.datetime(2020, 1, 2, 3, 4, 5)
    if t == 'map':
        return {'mk': f'mv-{name}'}
    if t in ('integer', 'long'):
        return 7
    if t == 'boolean':
        return True
    return f'v-{name}'


class SizeSub(BaseSubscriber):
    def __init__(self, size):
        self.size = size

    def on_queued(self, future, **kw):
        future.meta.provide_transfer_size(self.size)


def run_manager_case(kind, mode, extra, rcc, size_known, scratch):
    """-> (calls, outcome, exception)"""
    s = Sched()
    R = {}

    def main():
        s3 = FakeS3(s)
        client = FakeClient(s3, s, rcc=rcc)
        R['s3'] = s3
        harness.set_adjuster({'min_size': 1, 'max_size': 1000, 'max_parts': 1000})
        size = 5 if mode in ('multipart', 'ranged') else 3
        cfg = TransferConfig(multipart_threshold=4, multipart_chunksize=2, io_chunksize=2)
        m = TransferManager(client, cfg, FaultyOSUtils(s), executor_cls=NonThreadedExecutor)
        subs = [SizeSub(size)] if size_known else []
        try:
            if kind == 'upload':
                p = os.path.join(scratch.path, 'src')
                with open(p, 'wb') as fh:
                    fh.write(payload(size))
                f = m.upload(p, BUCKET, 'dst', extra_args=dict(extra), subscribers=subs)
            elif kind == 'upload-stream':
                f = m.upload(SourceStream(s, payload(size), seekable=False), BUCKET, 'dst',
                             extra_args=dict(extra), subscribers=subs)
            elif kind == 'download':
                s3.put(BUCKET, 'k', payload(size))
                f = m.download(BUCKET, 'k', SinkStream(s), extra_args=dict(extra), subscribers=subs)
            elif kind == 'copy':
                s3.put(BUCKET, 'k', payload(size))
                f = m.copy({'Bucket': BUCKET, 'Key': 'k'}, BUCKET, 'dst', extra_args=dict(extra), subscribers=subs)
            elif kind == 'delete':
                s3.put(BUCKET, 'k', payload(size))
                f = m.delete(BUCKET, 'k', extra_args=dict(extra), subscribers=subs)
            f.result()
            R['outcome'] = 'ok'
        except Exception as e:  # noqa
            R['outcome'] = 'exc'
            R['exc'] = e
        finally:
            harness.set_adjuster(None)
    s.run_inline(main)
    return R['s3'].calls, R['outcome'], R.get('exc'), R['s3'].anomalies


def _submit(m, s, s3, kind, size, extra_obj, scratch, tag=''):
    if kind == 'upload':
        p = os.path.join(scratch.path, 'src' + tag)
        with open(p, 'wb') as fh:
            fh.write(payload(size))
        return m.upload(p, BUCKET, 'dst' + tag, extra_args=extra_obj)
    s3.put(BUCKET, 'k' + tag, payload(size))
    if kind == 'download':
        return m.download(BUCKET, 'k' + tag, SinkStream(s), extra_args=extra_obj)
    if kind == 'copy':
        return m.copy({'Bucket': BUCKET, 'Key': 'k' + tag}, BUCKET, 'dst' + tag, extra_args=extra_obj)
    return m.delete(BUCKET, 'k' + tag, extra_args=extra_obj)


def run_sequence_case(first, second, extra, rccs, scratch):
    """Histories: the caller hands the SAME extra_args dict object to two consecutive transfers
    (first, second are (kind, mode); rccs the request_checksum_calculation of the client each one
    runs on - the same manager when equal).  -> calls of the second transfer, outcome, exc, anomalies"""
    s = Sched()
    R = {}

    def main():
        s3 = FakeS3(s)
        harness.set_adjuster({'min_size': 1, 'max_size': 1000, 'max_parts': 1000})
        cfg = TransferConfig(multipart_threshold=4, multipart_chunksize=2, io_chunksize=2)
        R['s3'] = s3
        ms = {}
        for rcc in set(rccs):
            ms[rcc] = TransferManager(FakeClient(s3, s, rcc=rcc), cfg, FaultyOSUtils(s), executor_cls=NonThreadedExecutor)
        shared = dict(extra)
        try:
            f = _submit(ms[rccs[0]], s, s3, first[0], 5 if first[1] != 'single' else 3, shared, scratch, '1')
            f.result()
            R['cut'] = len(s3.calls)
            R['an_cut'] = len(s3.anomalies)
            f = _submit(ms[rccs[1]], s, s3, second[0], 5 if second[1] != 'single' else 3, shared, scratch, '2')
            f.result()
            R['outcome'] = 'ok'
        except Exception as e:  # noqa
            R['outcome'] = 'exc'
            R['exc'] = e
        finally:
            harness.set_adjuster(None)
    s.run_inline(main)
    cut = R.get('cut')
    if cut is None:
        raise detsched.HarnessError(f'first transfer of a sequence case failed: {R.get("exc")!r}')
    return R['s3'].calls[cut:], R['outcome'], R.get('exc'), R['s3'].anomalies[R['an_cut']:]


def sequence_cases():
    cases = []
    seconds = [('download', 'single'), ('download', 'ranged'), ('copy', 'single'), ('copy', 'multipart'),
               ('delete', 'single'), ('upload', 'single'), ('upload', 'multipart')]
    for first in (('upload', 'single'), ('upload', 'multipart')):
        for second in seconds:
            for rccs in (('when_supported', 'when_supported'), ('when_required', 'when_required'),
                         ('when_supported', 'when_required')):
                extras = [{}, {'RequestPayer': 'requester'}]
                if second[0] == 'upload':
                    extras += [{fo: f'v-{fo}'} for fo in FULL_OBJECT[:2]] + [{'ChecksumAlgorithm': 'SHA256'}]
                for E in extras:
                    cases.append((first, second, E, rccs))
    # and the other direction / other first transfers: nothing an earlier transfer did may leak
    for first in (('copy', 'multipart'), ('download', 'ranged'), ('delete', 'single')):
        for second in seconds:
            cases.append((first, second, {'RequestPayer': 'requester'}, ('when_supported', 'when_supported')))
    return cases


def run_sequence_cases():
    sd = ScratchDir('c15s')
    viol = []
    n = 0
    try:
        for first, second, E, rccs in sequence_cases():
            calls, oc, exc, anomalies = run_sequence_case(first, second, E, rccs, sd)
            n += 1
            for sig, msg in judge(second[0], second[1], E, rccs[1], False, calls, oc, exc, anomalies, fe='manager-seq'):
                viol.append({'sig': sig, 'msg': msg + f' [second transfer of a sequence sharing one extra_args dict: first={first} '
                                                      f'second={second} rcc={rccs} extra={sorted(E)}]',
                             'replay': {'kind': 'seq', 'args': [list(first), list(second), E, list(rccs)]}})
    finally:
        sd.cleanup()
    return n, viol


def expected_for(kind, mode, op, E, rcc, role):
    """Parameters (beyond the structural ones) operation `op` must receive."""
    mem = members(op)
    k = 'upload' if kind.startswith('upload') else kind
    if k == 'upload':
        E2 = dict(E)
        fo = [x for x in FULL_OBJECT if x in E]
        if rcc == 'when_supported' and not fo:
            E2.setdefault('ChecksumAlgorithm', 'CRC32')
        if mode == 'multipart' and fo:
            E2['ChecksumType'] = 'FULL_OBJECT'
            E2['ChecksumAlgorithm'] = fo[-1][len('Checksum'):]
        exp = {a: v for a, v in E2.items() if a in mem}
        if op in ('UploadPart',):
            for x in FULL_OBJECT:
                exp.pop(x, None)        # never to individual parts
        return exp
    if k == 'download' or k == 'delete':
        return {a: v for a, v in E.items() if a in mem}
    if k == 'copy':
        if op == 'HeadObject':
            exp = {}
            for a, v in E.items():
                if a in HEAD_MAP:
                    exp[HEAD_MAP[a]] = v
                elif a in mem and a not in DEST_SSEC and a not in HEAD_MAP.values():
                    if a in ('RequestPayer', 'ExpectedBucketOwner'):
                        exp[a] = v
            return exp
        return {a: v for a, v in E.items() if a in mem}
    raise ValueError(kind)


def ops_of(kind, mode, size_known):
    k = 'upload' if kind.startswith('upload') else kind
    if k == 'upload':
        return ['PutObject'] if mode == 'single' else ['CreateMultipartUpload', 'UploadPart', 'CompleteMultipartUpload']
    if k == 'download':
        return ([] if size_known else ['HeadObject']) + ['GetObject']
    if k == 'copy':
        head = [] if size_known else ['HeadObject']
        return head + (['CopyObject'] if mode == 'single' else ['CreateMultipartUpload', 'UploadPartCopy', 'CompleteMultipartUpload'])
    return ['DeleteObject']


def judge(kind, mode, E, rcc, size_known, calls, outcome, exc, anomalies, fe='manager'):
    out = []
    tag = f'{fe}:{kind}:{mode}'
    for a in anomalies:
        if a[0] == 'param-validation':
            out.append((f'C15:{tag}:unknown-parameter:{a[1]}', f'{a[1]} received a parameter it does not accept: {a[2][:200]}'))
    if outcome != 'ok' and not out:
        out.append((f'C15:{tag}:failed', f'transfer failed: {exc!r}'))
        return out
    want_ops = ops_of(kind, mode, size_known)
    seen_ops = [c['op'] for c in calls]
    for op in want_ops:
        if op not in seen_ops:
            out.append((f'C15:{tag}:missing-operation:{op}', f'operations seen {seen_ops}'))
    for c in calls:
        op = c['op']
        if op not in want_ops:
            continue
        got = {a: v for a, v in c['kwargs'].items() if a not in STRUCTURAL}
        exp = expected_for(kind, mode, op, E, rcc, 'data')
        for a, v in exp.items():
            if a not in got:
                out.append((f'C15:{tag}:not-forwarded:{op}:{a}', f'{op} accepts {a} but did not receive it (extra_args {sorted(E)})'))
            elif got[a] != v:
                out.append((f'C15:{tag}:modified:{op}:{a}', f'{op} received {a}={got[a]!r}, given {v!r}'))
        for a, v in got.items():
            if a not in exp:
                out.append((f'C15:{tag}:unexpected:{op}:{a}', f'{op} received {a}={v!r} which the statement does not route there (extra_args {sorted(E)})'))
    return out


def abort_case(kind, E, scratch):
    """multipart transfer whose complete fails: the abort cleanup must receive the
    arguments AbortMultipartUpload accepts"""
    s = Sched(prefix=[])
    R = {}
    from ..env.s3 import FaultPlan

    def main():
        s3 = FakeS3(s)
        client = FakeClient(s3, s, plan=FaultPlan(sites=['s3:CompleteMultipartUpload:before']))
        R['s3'] = s3
        harness.set_adjuster({'min_size': 1, 'max_size': 1000, 'max_parts': 1000})
        cfg = TransferConfig(multipart_threshold=4, multipart_chunksize=2)
        m = TransferManager(client, cfg, FaultyOSUtils(s), executor_cls=NonThreadedExecutor)
        try:
            if kind == 'upload':
                p = os.path.join(scratch.path, 'src')
                with open(p, 'wb') as fh:
                    fh.write(payload(5))
                f = m.upload(p, BUCKET, 'dst', extra_args=dict(E))
            else:
                s3.put(BUCKET, 'k', payload(5))
                f = m.copy({'Bucket': BUCKET, 'Key': 'k'}, BUCKET, 'dst', extra_args=dict(E))
            try:
                f.result()
            except Exception:
                pass
        finally:
            harness.set_adjuster(None)
    s.prefix = [1]       # the only fault site: fail CompleteMultipartUpload
    s.run_inline(main)
    out = []
    ab = [c for c in R['s3'].calls if c['op'] == 'AbortMultipartUpload']
    if not ab:
        return [('C15:abort:not-issued', 'complete failed but no abort')]
    mem = members('AbortMultipartUpload')
    got = {a: v for a, v in ab[0]['kwargs'].items() if a not in STRUCTURAL}
    for a, v in E.items():
        if a in mem and got.get(a) != v:
            out.append((f'C15:manager:{kind}:abort:not-forwarded:{a}',
                        f'AbortMultipartUpload accepts {a} but the cleanup sent {got} (extra_args {sorted(E)})'))
    return out


def manager_cases(tier):
    cases = []
    allowed = {
        'upload': list(TransferManager.ALLOWED_UPLOAD_ARGS), 'upload-stream': list(TransferManager.ALLOWED_UPLOAD_ARGS),
        'download': list(TransferManager.ALLOWED_DOWNLOAD_ARGS),
        'copy': list(TransferManager.ALLOWED_COPY_ARGS), 'delete': list(TransferManager.ALLOWED_DELETE_ARGS)}
    modes = {'upload': ('single', 'multipart'), 'upload-stream': ('single', 'multipart'), 'download': ('single', 'ranged'),
             'copy': ('single', 'multipart'), 'delete': ('single',)}
    fam = ['ChecksumAlgorithm', 'ChecksumType', 'MpuObjectSize']
    for kind in allowed:
        for mode in modes[kind]:
            known_opts = (False, True) if kind in ('download', 'copy') else (False,)
            for known in known_opts:
                rccs = ('when_required', 'when_supported') if kind.startswith('upload') else ('when_required',)
                for rcc in rccs:
                    cases.append((kind, mode, {}, rcc, known))
                    for a in allowed[kind]:
                        if a in FULL_OBJECT or a in fam:
                            continue
                        cases.append((kind, mode, {a: marker(a)}, rcc, known))
                    if kind.startswith('upload'):
                        # every subset of the checksum family with at most one full-object checksum
                        for r in range(0, len(fam) + 1):
                            for sub in itertools.combinations(fam, r):
                                for fo in [None] + FULL_OBJECT:
                                    E = {a: marker(a) for a in sub}
                                    if fo:
                                        E[fo] = f'v-{fo}'
                                        if 'ChecksumType' in E:
                                            E['ChecksumType'] = 'FULL_OBJECT'
                                        if 'ChecksumAlgorithm' in E:
                                            E['ChecksumAlgorithm'] = fo[len('Checksum'):]
                                    if E:
                                        cases.append((kind, mode, E, rcc, known))
                    # all (non checksum-family) allowed names at once
                    E = {a: marker(a) for a in allowed[kind] if a not in FULL_OBJECT and a not in fam}
                    cases.append((kind, mode, E, rcc, known))
    return cases, allowed


def _case_job(chunk):
    sd = ScratchDir('c15')
    viol = []
    sigs = set()
    n = 0
    sample = None
    try:
        for (kind, mode, E, rcc, known) in chunk:
            calls, oc, exc, anomalies = run_manager_case(kind, mode, E, rcc, known, sd)
            n += 1
            errs = judge(kind, mode, E, rcc, known, calls, oc, exc, anomalies)
            sigs.add((kind, mode, tuple(sorted(E)), rcc, known))
            if sample is None and len(E) == 1 and mode != 'single':
                sample = {'kind': kind, 'mode': mode, 'extra_args': {a: str(v) for a, v in E.items()}, 'rcc': rcc,
                          'received': [(c['op'], sorted(a for a in c['kwargs'] if a not in STRUCTURAL)) for c in calls]}
            for sig, msg in errs:
                viol.append({'sig': sig, 'msg': msg + f' [case kind={kind} mode={mode} rcc={rcc} size_known={known} extra={sorted(E)}]',
                             'replay': {'kind': 'case', 'args': [kind, mode, {a: (v.isoformat() if hasattr(v, 'isoformat') else v) for a, v in E.items()}, rcc, known]}})
    finally:
        sd.cleanup()
    return n, viol, sigs, sample


def disallowed_cases():
    out = []
    n = 0
    s = Sched()

    def main():
        nonlocal n
        s3 = FakeS3(s)
        client = FakeClient(s3, s)
        m = TransferManager(client, TransferConfig(), FaultyOSUtils(s), executor_cls=NonThreadedExecutor)
        s3.put(BUCKET, 'k', b'abc')
        trials = [('upload', lambda: m.upload(SourceStream(s, b'abc'), BUCKET, 'd', extra_args={'VersionId': 'x'})),
                  ('download', lambda: m.download(BUCKET, 'k', SinkStream(s), extra_args={'ACL': 'private'})),
                  ('copy', lambda: m.copy({'Bucket': BUCKET, 'Key': 'k'}, BUCKET, 'd', extra_args={'VersionId': 'x'})),
                  ('delete', lambda: m.delete(BUCKET, 'k', extra_args={'ACL': 'private'}))]
        for name, fn in trials:
            n += 1
            before = len(s3.calls)
            try:
                fn()
                out.append((f'C15:manager:{name}:disallowed-accepted', 'argument outside the allow-list was accepted'))
            except ValueError:
                pass
            if len(s3.calls) != before:
                out.append((f'C15:manager:{name}:request-before-rejection', 'a request was made before the argument was rejected'))
    s.run_inline(main)
    return n, out


# ---------------------------------------------------------------------------
# legacy S3Transfer and process pool
# ---------------------------------------------------------------------------

def frontend_cases():
    viol = []
    n = 0
    sigs = set()
    sd = ScratchDir('c15f')
    try:
        # legacy upload: every allowed name must be known to each operation it is sent to, and reach
        # every operation of the transfer that accepts it
        for mode, size in (('single', 3), ('multipart', 5)):
            for a in legacy.S3Transfer.ALLOWED_UPLOAD_ARGS + ['*all*']:
                if a == '*all*':
                    E = {x: marker(x) for x in legacy.S3Transfer.ALLOWED_UPLOAD_ARGS if x in members('PutObject')}
                else:
                    E = {a: marker(a)}
                R = frontends.run_frontend(dict(frontend='legacy', op='upload', size=size, t=4, c=2, extra=E), (), scratch=sd)
                n += 1
                sigs.add(('legacy-upload', mode, a))
                ops = ['PutObject'] if mode == 'single' else ['CreateMultipartUpload', 'UploadPart', 'CompleteMultipartUpload']
                unknown = [x for x in E if not any(x in members(o) for o in ('PutObject', 'CreateMultipartUpload', 'UploadPart', 'CompleteMultipartUpload'))]
                for x in unknown:
                    viol.append({'sig': f'C15:legacy:upload:allow-list-name-unknown-to-every-operation:{x}',
                                 'msg': f'S3Transfer.ALLOWED_UPLOAD_ARGS contains {x!r}, which no upload operation accepts; outcome {R["outcome"]} {R.get("exc")!r}',
                                 'replay': {'kind': 'legacy-upload', 'args': [mode, a]}})
                if unknown:
                    continue
                if R['outcome'] != 'ok':
                    viol.append({'sig': f'C15:legacy:upload:{mode}:failed', 'msg': f'{R.get("exc")!r} extra={sorted(E)}', 'replay': None})
                    continue
                for c in R['calls']:
                    if c['op'] not in ops:
                        continue
                    got = {k: v for k, v in c['kwargs'].items() if k not in STRUCTURAL}
                    exp = {k: v for k, v in E.items() if k in members(c['op'])}
                    for k, v in exp.items():
                        if got.get(k) != v:
                            viol.append({'sig': f'C15:legacy:upload:{mode}:not-forwarded:{c["op"]}:{k}',
                                         'msg': f'{c["op"]} accepts {k} but received {got}', 'replay': {'kind': 'legacy-upload', 'args': [mode, a]}})
                    for k in got:
                        if k not in exp:
                            viol.append({'sig': f'C15:legacy:upload:{mode}:unexpected:{c["op"]}:{k}', 'msg': f'{c["op"]} received {k}', 'replay': None})
        # downloads: legacy + process pool, single and ranged, size discovered
        for fe, allowed in (('legacy', legacy.S3Transfer.ALLOWED_DOWNLOAD_ARGS), ('ppool', pp.ALLOWED_DOWNLOAD_ARGS)):
            for mode, size in (('single', 3), ('ranged', 5)):
                for a in list(allowed) + ['*all*']:
                    E = {x: marker(x) for x in allowed} if a == '*all*' else {a: marker(a)}
                    R = frontends.run_frontend(dict(frontend=fe, op='download', size=size, t=4, c=2, extra=E), (), scratch=sd)
                    n += 1
                    sigs.add((fe, mode, a))
                    if R['outcome'] != 'ok':
                        viol.append({'sig': f'C15:{fe}:download:{mode}:failed', 'msg': f'{R.get("exc")!r} extra={sorted(E)}', 'replay': None})
                        continue
                    for c in R['calls']:
                        if c['op'] not in ('HeadObject', 'GetObject'):
                            continue
                        got = {k: v for k, v in c['kwargs'].items() if k not in STRUCTURAL}
                        exp = {k: v for k, v in E.items() if k in members(c['op'])}
                        for k, v in exp.items():
                            if got.get(k) != v:
                                viol.append({'sig': f'C15:{fe}:download:{mode}:not-forwarded:{c["op"]}:{k}',
                                             'msg': f'{c["op"]} (Range={c["kwargs"].get("Range")}) accepts {k} but received only {sorted(got)}',
                                             'replay': {'kind': 'fe-download', 'args': [fe, mode, a]}})
                        for k in got:
                            if k not in exp:
                                viol.append({'sig': f'C15:{fe}:download:{mode}:unexpected:{c["op"]}:{k}', 'msg': f'{c["op"]} received {k}', 'replay': None})
        # disallowed names
        for fe in ('legacy',):     # the process pool validates in ProcessPoolDownloader.download_file (exercised in C19)
            R = frontends.run_frontend(dict(frontend=fe, op='download', size=3, t=4, c=2, extra={'ACL': 'private'}), (), scratch=sd)
            n += 1
            if R['outcome'] == 'ok' or not isinstance(R.get('exc'), ValueError) or R['calls']:
                viol.append({'sig': f'C15:{fe}:download:disallowed-not-rejected', 'msg': f'outcome {R["outcome"]} {R.get("exc")!r} calls={len(R["calls"])}', 'replay': None})
    finally:
        sd.cleanup()
    return n, viol, sigs


def replay(data):
    k = data['kind']
    if k == 'case':
        kind, mode, E, rcc, known = data['args']
        E = {a: (marker(a) if a.endswith('Since') or a in ('Expires', 'ObjectLockRetainUntilDate') else v) for a, v in E.items()}
        sd = ScratchDir('c15r')
        try:
            calls, oc, exc, anomalies = run_manager_case(kind, mode, E, rcc, known, sd)
        finally:
            sd.cleanup()
        errs = judge(kind, mode, E, rcc, known, calls, oc, exc, anomalies)
        rec = [(c['op'], {a: str(v) for a, v in c['kwargs'].items() if a not in STRUCTURAL}) for c in calls]
        return {'received': rec, 'violations': errs, 'digest': repr(rec)}
    if k == 'seq':
        first, second, E, rccs = data['args']
        sd = ScratchDir('c15r')
        try:
            calls, oc, exc, anomalies = run_sequence_case(tuple(first), tuple(second), E, tuple(rccs), sd)
        finally:
            sd.cleanup()
        errs = judge(second[0], second[1], E, rccs[1], False, calls, oc, exc, anomalies, fe='manager-seq')
        rec = [(c['op'], {a: str(v) for a, v in c['kwargs'].items() if a not in STRUCTURAL}) for c in calls]
        return {'received': rec, 'violations': errs, 'digest': repr(rec) + repr(exc)}
    if k == 'abort':
        sd = ScratchDir('c15r')
        try:
            errs = abort_case(data['args'][0], {a: marker(a) for a in data['args'][1]}, sd)
        finally:
            sd.cleanup()
        return {'violations': errs, 'digest': repr(errs)}
    n, viol, sigs = frontend_cases()
    return {'violations': [v for v in viol if v['sig'] == data.get('sig')] or viol[:3], 'digest': str(len(viol))}


def run(tier, seed):
    cases, allowed = manager_cases(tier)
    chunks = [cases[i::16] for i in range(16)]
    res = explore.run_jobs(_case_job, chunks)
    viol = []
    sigs = set()
    n = 0
    samples = []
    for nn, v, sg, sample in res:
        n += nn
        viol.extend(v)
        sigs |= sg
        if sample and len(samples) < 3:
            samples.append(sample)
    # abort cleanup
    sd = ScratchDir('c15a')
    na = 0
    try:
        for kind in ('upload', 'copy'):
            al = allowed[kind]
            for a in al:
                if a in members('AbortMultipartUpload'):
                    na += 1
                    for sig, msg in abort_case(kind, {a: marker(a)}, sd):
                        viol.append({'sig': sig, 'msg': msg, 'replay': {'kind': 'abort', 'args': [kind, [a]]}})
    finally:
        sd.cleanup()
    nd, vd = disallowed_cases()
    for sig, msg in vd:
        viol.append({'sig': sig, 'msg': msg, 'replay': None})
    nf, vf, sf = frontend_cases()
    viol.extend(vf)
    nq, vq = run_sequence_cases()
    viol.extend(vq)
    # the same forwarding with the library's DEBUG logging switched on (what `boto3.set_stream_logger('')`
    # does): what is logged must not change what is sent
    import logging
    nl = 0
    sdl = ScratchDir('c15l')
    prev_disable = logging.root.manager.disable
    lg = logging.getLogger('s3transfer')
    prev_level, nh = lg.level, logging.NullHandler()
    try:
        logging.disable(logging.NOTSET)
        lg.setLevel(logging.DEBUG)
        lg.addHandler(nh)
        for kind, modes in (('upload', ('single', 'multipart')), ('download', ('single', 'ranged')), ('copy', ('single', 'multipart')), ('delete', ('single',))):
            E = {a: marker(a) for a in allowed[kind] if a not in FULL_OBJECT and a not in ('ChecksumAlgorithm', 'ChecksumType', 'MpuObjectSize')}
            for mode in modes:
                calls, oc, exc, anomalies = run_manager_case(kind, mode, E, 'when_required', False, sdl)
                nl += 1
                for sig, msg in judge(kind, mode, E, 'when_required', False, calls, oc, exc, anomalies, fe='manager-debuglog'):
                    viol.append({'sig': sig, 'msg': msg + f' [DEBUG logging enabled; kind={kind} mode={mode}]', 'replay': None})
    finally:
        lg.removeHandler(nh)
        lg.setLevel(prev_level)
        logging.disable(prev_disable)
        sdl.cleanup()
    total = n + na + nd + nf + nq + nl
    cov = {'evaluations': total, 'distinct_nontrivial': len(sigs) + len(sf) + na,
           'rule': 'one transfer per (front-end, method, mode, size known?, request_checksum_calculation, extra_args) case, exhaustive over the case '
                   'list; the kwargs of every call are validated by botocore\'s ParamValidator against the operation\'s input shape and compared with the '
                   'expectation table; distinct = distinct cases',
           'samples': samples, 'exhaustive': True, 'states': total, 'transitions': total,
           'traces_validated_against_impl': total,
           'parts': {'manager cases': n, 'abort-cleanup cases': na, 'disallowed-name cases': nd, 'legacy + process-pool cases': nf,
                     'two-transfer histories sharing one extra_args dict': nq, 'all arguments with DEBUG logging on': nl}}
    return {'coverage': cov, 'violations': viol, 'level': 'exploration',
            'assumptions': ['expectation table written from the statement + installed botocore S3 model',
                            'at most one full-object checksum per case',
                            'for single-request uploads with a user-supplied full-object checksum no ChecksumAlgorithm is demanded (PutObject has no ChecksumType)']}
