"""C16 - streaming destinations are written strictly in order, each byte once.

BFS over the real DeferQueue: every delivery history the download loop can
produce (disjoint parts; each attempt delivers consecutive chunks of arbitrary
size from the part's first byte; attempts may stop anywhere and be restarted;
attempts of different parts interleave arbitrarily), up to a length bound.
End-to-end: non-seekable downloads through the manager under C02's fault
sequences (see C02; the same oracle clauses are evaluated there and reported
here through common.stream_download_e2e).
"""
import time

from .. import harness, bfs
from ..detsched import Sched
from . import common

harness.install()
from s3transfer.download import DeferQueue  # noqa: E402


def obj_bytes(total):
    return bytes((i * 7 + 3) % 251 + 1 for i in range(total))


class Model:
    def __init__(self, P, L):
        self.P, self.L = P, L
        self.pos = [0] * P
        self.restarts = [0] * P
        self.W = 0                       # end of the written prefix
        self.delivered = 0               # bitmask of bytes ever delivered
        self.deliveries = 0

    def state(self):
        return (tuple(self.pos), tuple(self.restarts), self.W, self.delivered)


def _impl_state(q):
    try:
        return (q._next_offset, tuple(sorted((o, len(d)) for o, d in q._writes)))
    except AttributeError:
        return None


def defer_bfs(P, L, sizes, max_restarts, depth, deadline, max_states=None):
    total = P * L
    data = obj_bytes(total)

    def make():
        return DeferQueue(), Model(P, L)

    def ops_of(impl, m):
        ops = []
        for p in range(P):
            left = L - m.pos[p]
            for sz in sizes:
                if sz <= left:
                    ops.append(('d', p, sz))
            if m.pos[p] > 0 and m.restarts[p] < max_restarts:
                ops.append(('r', p))
        return ops

    def step(impl, m, op):
        errors = []
        if op[0] == 'r':
            p = op[1]
            m.pos[p] = 0
            m.restarts[p] += 1
            return 'restart', errors
        _, p, sz = op
        off = p * L + m.pos[p]
        chunk = data[off:off + sz]
        writes = impl.request_writes(off, chunk)
        m.pos[p] += sz
        m.deliveries += 1
        for i in range(off, off + sz):
            m.delivered |= (1 << i)
        obs = []
        for w in writes:
            wo, wd = w['offset'], w['data']
            obs.append((wo, len(wd)))
            if wo != m.W:
                kind = 'rewrite' if wo < m.W else 'gap'
                errors.append((f'C16:defer:{kind}',
                               f'write at offset {wo} (len {len(wd)}) but {m.W} bytes are written so far'))
                break
            if bytes(wd) != data[wo:wo + len(wd)]:
                errors.append(('C16:defer:wrong-bytes',
                               f'write at {wo} carries {bytes(wd)!r}, object has {data[wo:wo+len(wd)]!r}'))
                break
            m.W += len(wd)
        if not errors and m.W < total and (m.delivered >> m.W) & 1:
            # byte W has been delivered (now or earlier) and everything before
            # it is written: it must have been released
            errors.append(('C16:defer:withheld-or-lost',
                           f'byte {m.W} was delivered and all bytes before it are written, but it was not released '
                           f'(delivery ({off},{sz}) returned {obs})'))
        if not errors and all(x == L for x in m.pos) and m.W != total:
            errors.append(('C16:defer:incomplete',
                           f'every part completed its last attempt but only {m.W}/{total} bytes were written'))
        return tuple(obs), errors

    def canon(impl, m):
        return (m.state(), _impl_state(impl))

    return bfs.bfs(make, ops_of, step, canon, depth, deadline=deadline, max_states=max_states)


def replay(data):
    if data.get('kind') == 'defer':
        P, L = data['P'], data['L']
        total = P * L
        ob = obj_bytes(total)
        q = DeferQueue()
        pos = [0] * P
        W = 0
        trace = []
        bad = []
        for op in data['history']:
            if op[0] == 'r':
                pos[op[1]] = 0
                trace.append(('restart', op[1]))
                continue
            _, p, sz = op
            off = p * L + pos[p]
            ws = q.request_writes(off, ob[off:off + sz])
            pos[p] += sz
            trace.append((('deliver', off, sz), [(w['offset'], len(w['data'])) for w in ws]))
            for w in ws:
                if w['offset'] != W:
                    bad.append(f'write at {w["offset"]} while {W} written')
                W += len(w['data'])
        if all(x == L for x in pos) and W != total:
            bad.append(f'all parts complete but {W}/{total} written')
        return {'trace': trace, 'written': W, 'violations': bad, 'digest': repr(trace)}
    return common.replay_manager(data)


def run(tier, seed):
    t0 = time.time()
    viol = []
    cov = {'parts': {}}
    states = transitions = 0
    samples = []
    dobs = 0
    if tier == 'quick':
        grid = [(2, 3, (1, 2, 3), 1, 12), (2, 4, (1, 2, 3), 1, 12), (3, 3, (1, 2), 1, 10)]
        budget = 120
    else:
        grid = [(2, 3, (1, 2, 3), 2, 14), (2, 4, (1, 2, 3), 2, 14), (3, 3, (1, 2, 3), 2, 12),
                (3, 4, (1, 2, 3), 1, 12)]
        budget = 1500
    for P, L, sizes, mr, depth in grid:
        r = defer_bfs(P, L, sizes, mr, depth, deadline=t0 + budget)
        states += r.states
        transitions += r.transitions
        dobs += len(r.distinct_obs)
        cov['parts'][f'defer P={P} L={L} sizes={sizes} restarts<={mr}'] = {
            'states': r.states, 'transitions': r.transitions, 'depth': r.depth_completed,
            'frontier_exhausted': r.exhausted, 'caps_hit': r.caps_hit}
        samples.extend(r.samples[:1])
        for v in r.violations:
            viol.append({'sig': v['sig'], 'msg': v['msg'] + f' P={P} L={L} history={v["history"]}',
                         'replay': {'kind': 'defer', 'P': P, 'L': L, 'history': v['history']}})
    e2e = common.stream_download_e2e(tier, seed)
    cov['parts']['end-to-end (manager, non-seekable destinations)'] = e2e['coverage']
    viol.extend(e2e['violations'])
    cov.update({
        'states': states + e2e['coverage'].get('states', 0),
        'transitions': transitions + e2e['coverage'].get('transitions', 0),
        'traces_validated_against_impl': transitions + e2e['coverage'].get('executions', 0),
        'evaluations': transitions + e2e['coverage'].get('executions', 0),
        'distinct_nontrivial': dobs + e2e['coverage'].get('distinct_outcomes', 0),
        'rule': 'BFS over delivery histories (deliver next chunk of part p with size s / restart part p), de-duplicated on '
                '(per-part attempt position and restarts, written prefix, delivered set, full DeferQueue state); '
                'distinct = distinct (operation, released writes) observations',
        'samples': samples[:4],
        'exhaustive': not any(p.get('caps_hit') for p in cov['parts'].values()),
        'caps_hit': [c for p in cov['parts'].values() for c in (p.get('caps_hit') or [])],
    })
    return {'coverage': cov, 'violations': viol, 'level': 'model_checking',
            'assumptions': ['parts are disjoint and every attempt starts at its part\'s first byte (what GetObjectTask does)']}
