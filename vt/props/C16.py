"""C16 - streaming destinations are written strictly in order, each byte once.

BFS over the real DeferQueue: every delivery history the download loop can
produce (disjoint parts; each attempt delivers consecutive chunks of arbitrary
size from the part's first byte; attempts may stop anywhere and be restarted;
attempts of different parts interleave arbitrarily), up to a length bound.
End-to-end: non-seekable downloads through the manager under C02's fault
sequences (see C02; the same oracle clauses are evaluated there and reported
here through common.stream_download_e2e).
"""
import sys
import time

from .. import harness, bfs
from ..detsched import Sched
from . import common

harness.install()
from s3transfer.download import DeferQueue  # noqa: E402


def obj_bytes(total):
    return bytes((i * 7 + 3) % 251 + 1 for i in range(total))


class Chunk(bytes):
    """a delivered chunk whose retention can be observed: the harness keeps every chunk it
    delivered in a list; a chunk with more references than that list accounts for is still held
    by the queue (bytes subclasses are never cached or interned by the interpreter)"""


def _held(refs):
    base = _BASE[0]
    return sum(z for c, o, z in refs if sys.getrefcount(c) > base)


def _calibrate():
    refs = [(Chunk(b'xy'), 0, 2)]
    return max(sys.getrefcount(c) for c, o, z in refs)


_BASE = [None]


class Model:
    def __init__(self, P, L):
        self.refs = []                   # (chunk, offset, size) of every chunk delivered
        self.P, self.L = P, L
        self.pos = [0] * P
        self.restarts = [0] * P
        self.W = 0                       # end of the written prefix
        self.delivered = 0               # bitmask of bytes ever delivered
        self.deliveries = 0

    def state(self):
        return (tuple(self.pos), tuple(self.restarts), self.W, self.delivered)


def _impl_state(q):
    """every instance attribute of the queue, normalised: two histories are merged only when the
    whole implementation state agrees (an earlier version looked at two attributes only and merged
    states whose duplicate-bookkeeping differed - they do not have the same futures)"""
    out = []
    for k, v in sorted(vars(q).items()):
        if isinstance(v, (int, str, type(None))):
            out.append((k, v))
        elif isinstance(v, dict):
            out.append((k, tuple(sorted((a, b if isinstance(b, int) else len(b)) for a, b in v.items()))))
        elif isinstance(v, (list, tuple, set)):
            out.append((k, tuple(sorted((e[0], len(e[1])) if isinstance(e, tuple) and len(e) == 2 and hasattr(e[1], '__len__')
                                        else repr(e) for e in v))))
        else:
            out.append((k, repr(type(v))))
    return tuple(out)


def defer_bfs(P, L, sizes, max_restarts, depth, deadline, max_states=None):
    make, ops_of, step, canon = _parts(P, L, sizes, max_restarts)
    return bfs.bfs(make, ops_of, step, canon, depth, deadline=deadline, max_states=max_states)


def run_history(P, L, history):
    """one history on a fresh queue -> [(sig, msg)] of every clause (C16 and C11)"""
    make, ops_of, step, canon = _parts(P, L, (1, 2, 3), 99)
    impl, m = make()
    out = []
    for op in history:
        obs, errors = step(impl, m, tuple(op))
        out.extend(errors)
    return out


def _parts(P, L, sizes, max_restarts):
    total = P * L
    data = obj_bytes(total)

    def make():
        return DeferQueue(), Model(P, L)

    def ops_of(impl, m):
        ops = []
        for p in range(P):
            left = L - m.pos[p]
            for sz in sizes:
                if sz <= left:
                    ops.append(('d', p, sz))
            if m.pos[p] > 0 and m.restarts[p] < max_restarts:
                ops.append(('r', p))
        return ops

    def step(impl, m, op):
        errors = []
        if op[0] == 'r':
            p = op[1]
            m.pos[p] = 0
            m.restarts[p] += 1
            return 'restart', errors
        _, p, sz = op
        off = p * L + m.pos[p]
        chunk = Chunk(data[off:off + sz])
        # C11 (memory): a chunk identical to (or contained in) one that is still waiting in the
        # queue - same offset, not longer - is what a retried request delivers again; the queue
        # must not hold on to the second copy
        if _BASE[0] is None:
            _BASE[0] = _calibrate()
        held_before = _held(m.refs)
        dup = off >= m.W and any(o == off and z >= sz and sys.getrefcount(c) > _BASE[0] for c, o, z in m.refs)
        m.refs.append((chunk, off, sz))
        writes = impl.request_writes(off, chunk)
        del chunk
        held_after = _held(m.refs)
        if dup and held_after > held_before:
            errors.append(('C11:defer:duplicate-retained',
                           f're-delivery of ({off},{sz}), identical to a chunk still waiting, raised the data held by the queue '
                           f'from {held_before} to {held_after} bytes'))
        m.max_held = max(getattr(m, 'max_held', 0), held_after)
        m.pos[p] += sz
        m.deliveries += 1
        for i in range(off, off + sz):
            m.delivered |= (1 << i)
        obs = []
        for w in writes:
            wo, wd = w['offset'], w['data']
            obs.append((wo, len(wd)))
            if wo != m.W:
                kind = 'rewrite' if wo < m.W else 'gap'
                errors.append((f'C16:defer:{kind}',
                               f'write at offset {wo} (len {len(wd)}) but {m.W} bytes are written so far'))
                break
            if bytes(wd) != data[wo:wo + len(wd)]:
                errors.append(('C16:defer:wrong-bytes',
                               f'write at {wo} carries {bytes(wd)!r}, object has {data[wo:wo+len(wd)]!r}'))
                break
            m.W += len(wd)
        if not errors and m.W < total and (m.delivered >> m.W) & 1:
            # byte W has been delivered (now or earlier) and everything before
            # it is written: it must have been released
            errors.append(('C16:defer:withheld-or-lost',
                           f'byte {m.W} was delivered and all bytes before it are written, but it was not released '
                           f'(delivery ({off},{sz}) returned {obs})'))
        if not errors and all(x == L for x in m.pos) and m.W != total:
            errors.append(('C16:defer:incomplete',
                           f'every part completed its last attempt but only {m.W}/{total} bytes were written'))
        return tuple(obs), errors

    def canon(impl, m):
        return (m.state(), _impl_state(impl))

    return make, ops_of, step, canon


def replay(data):
    if data.get('kind') == 'defer':
        P, L = data['P'], data['L']
        total = P * L
        ob = obj_bytes(total)
        q = DeferQueue()
        pos = [0] * P
        W = 0
        trace = []
        bad = []
        for op in data['history']:
            if op[0] == 'r':
                pos[op[1]] = 0
                trace.append(('restart', op[1]))
                continue
            _, p, sz = op
            off = p * L + pos[p]
            ws = q.request_writes(off, ob[off:off + sz])
            pos[p] += sz
            trace.append((('deliver', off, sz), [(w['offset'], len(w['data'])) for w in ws]))
            for w in ws:
                if w['offset'] != W:
                    bad.append(f'write at {w["offset"]} while {W} written')
                W += len(w['data'])
        if all(x == L for x in pos) and W != total:
            bad.append(f'all parts complete but {W}/{total} written')
        return {'trace': trace, 'written': W, 'violations': bad, 'digest': repr(trace)}
    return common.replay_manager(data)


def run(tier, seed):
    t0 = time.time()
    viol = []
    cov = {'parts': {}}
    states = transitions = 0
    samples = []
    dobs = 0
    if tier == 'quick':
        grid = [(2, 3, (1, 2, 3), 1, 12), (2, 4, (1, 2, 3), 1, 12), (3, 3, (1, 2), 1, 10)]
        budget = 120
    else:
        grid = [(2, 3, (1, 2, 3), 2, 14), (2, 4, (1, 2, 3), 2, 13), (3, 3, (1, 2, 3), 2, 11),
                (3, 4, (1, 2, 3), 1, 11)]
        budget = 900
    for P, L, sizes, mr, depth in grid:
        r = defer_bfs(P, L, sizes, mr, depth, deadline=t0 + budget)
        states += r.states
        transitions += r.transitions
        dobs += len(r.distinct_obs)
        cov['parts'][f'defer P={P} L={L} sizes={sizes} restarts<={mr}'] = {
            'states': r.states, 'transitions': r.transitions, 'depth': r.depth_completed,
            'frontier_exhausted': r.exhausted, 'caps_hit': r.caps_hit}
        samples.extend(r.samples[:1])
        for v in r.violations:
            if not v['sig'].startswith('C16'):
                continue          # the memory clause evaluated in the same search belongs to C11
            viol.append({'sig': v['sig'], 'msg': v['msg'] + f' P={P} L={L} history={v["history"]}',
                         'replay': {'kind': 'defer', 'P': P, 'L': L, 'history': v['history']}})
    e2e = common.stream_download_e2e(tier, seed)
    cov['parts']['end-to-end (manager, non-seekable destinations)'] = e2e['coverage']
    viol.extend(e2e['violations'])
    cov.update({
        'states': states + e2e['coverage'].get('states', 0),
        'transitions': transitions + e2e['coverage'].get('transitions', 0),
        'traces_validated_against_impl': transitions + e2e['coverage'].get('executions', 0),
        'evaluations': transitions + e2e['coverage'].get('executions', 0),
        'distinct_nontrivial': dobs + e2e['coverage'].get('distinct_outcomes', 0),
        'rule': 'BFS over delivery histories (deliver next chunk of part p with size s / restart part p), de-duplicated on '
                '(per-part attempt position and restarts, written prefix, delivered set, full DeferQueue state); '
                'distinct = distinct (operation, released writes) observations',
        'samples': samples[:4],
        'exhaustive': not any(p.get('caps_hit') for p in cov['parts'].values()),
        'caps_hit': [c for p in cov['parts'].values() for c in (p.get('caps_hit') or [])],
    })
    return {'coverage': cov, 'violations': viol, 'level': 'model_checking',
            'assumptions': ['parts are disjoint and every attempt starts at its part\'s first byte (what GetObjectTask does)']}
