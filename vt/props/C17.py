"""C17 - a transfer's state only moves forward and stays self-consistent.

(a) BFS over the real TransferCoordinator + TransferFuture against a reference
    state machine: every sequence of public operations up to a depth bound.
(b) every schedule of 2 (and selected 3) threads performing one operation each,
    plus an observer reading done() twice: the final observable state must be
    the one of some sequential order; done() never goes True -> False.
"""
import itertools
import time

from .. import harness, bfs, explore, detsched
from ..detsched import Sched, WouldBlock
from . import common, catalog

harness.install()
from s3transfer.futures import TransferCoordinator, TransferFuture, TransferMeta  # noqa: E402
from s3transfer.exceptions import CancelledError, FatalError, TransferNotDoneError  # noqa: E402


class E(Exception):
    def __init__(self, tag):
        super().__init__(tag)
        self.tag = tag


DONE = ('success', 'failed', 'cancelled')

OPS = [
    ('queued',), ('running',),
    ('result', 'v1'), ('result', 'v2'),
    ('exc', 'e1', False), ('exc', 'e2', False), ('exc', 'e2', True),
    ('cancel', 'm1', 'C'), ('cancel', 'm2', 'F'),
    ('announce',),
    ('fexc', 'e3'),
    ('addcb',), ('addcl',),
]


class Ref:
    """Reference machine written from the statement."""

    def __init__(self):
        self.status = 'not-started'
        self.exc = None          # label
        self.result = None
        self.event = False
        self.cbs = 0             # pending done callbacks
        self.cls = 0             # pending failure cleanups
        self.cb_runs = 0
        self.cl_runs = 0

    def done(self):
        return self.status in DONE

    def _announce(self):
        if self.status != 'success':
            self.cl_runs += self.cls
            self.cls = 0
        self.event = True
        self.cb_runs += self.cbs
        self.cbs = 0

    def apply(self, op):
        k = op[0]
        if k in ('queued', 'running'):
            if self.done():
                return ('raise', 'RuntimeError')
            self.status = k
            return ('ok', None)
        if k == 'result':
            self.exc = None
            self.result = op[1]
            self.status = 'success'
            return ('ok', None)
        if k == 'exc':
            if not self.done() or op[2]:
                self.exc = op[1]
                self.status = 'failed'
            return ('ok', None)
        if k == 'cancel':
            if not self.done():
                self.exc = f'{op[2]}:{op[1]}'
                ann = self.status == 'not-started'
                self.status = 'cancelled'
                if ann:
                    self._announce()
            return ('ok', None)
        if k == 'announce':
            self._announce()
            return ('ok', None)
        if k == 'fexc':
            if not self.done():
                return ('raise', 'TransferNotDoneError')
            self.exc = op[1]
            self.status = 'failed'
            return ('ok', None)
        if k == 'addcb':
            self.cbs += 1
            return ('ok', None)
        if k == 'addcl':
            self.cls += 1
            return ('ok', None)
        raise ValueError(op)

    def observe(self):
        res = None
        if self.event:
            res = ('raise', self.exc) if self.exc else ('ok', self.result)
        return (self.status, self.done(), self.exc, res, self.cb_runs, self.cl_runs)

    def state(self):
        return (self.status, self.exc, self.result, self.event, self.cbs, self.cls)


class Impl:
    def __init__(self):
        self.c = TransferCoordinator(transfer_id=0)
        self.f = TransferFuture(TransferMeta(None, 0), self.c)
        self.excs = {'e1': E('e1'), 'e2': E('e2'), 'e3': E('e3')}
        self.cb_runs = 0
        self.cl_runs = 0

    def _cb(self):
        self.cb_runs += 1

    def _cl(self):
        self.cl_runs += 1

    def label(self, e):
        if e is None:
            return None
        for k, v in self.excs.items():
            if v is e:
                return k
        if type(e) is CancelledError:
            return f'C:{e}'
        if type(e) is FatalError:
            return f'F:{e}'
        return f'?{type(e).__name__}:{e}'

    def apply(self, op):
        k = op[0]
        c, f = self.c, self.f
        try:
            if k == 'queued':
                c.set_status_to_queued()
            elif k == 'running':
                c.set_status_to_running()
            elif k == 'result':
                c.set_result(op[1])
            elif k == 'exc':
                c.set_exception(self.excs[op[1]], override=op[2])
            elif k == 'cancel':
                c.cancel(op[1], CancelledError if op[2] == 'C' else FatalError)
            elif k == 'announce':
                c.announce_done()
            elif k == 'fexc':
                f.set_exception(self.excs[op[1]])
            elif k == 'addcb':
                c.add_done_callback(self._cb)
            elif k == 'addcl':
                c.add_failure_cleanup(self._cl)
            else:
                raise ValueError(op)
            return ('ok', None)
        except (RuntimeError, TransferNotDoneError) as e:
            return ('raise', type(e).__name__)
        except detsched.SeqDeadlock as e:
            return ('deadlock', str(e)[:60])

    def observe(self):
        c, f = self.c, self.f
        s = detsched.active()
        res = None
        with s.nonblocking():
            try:
                res = ('ok', f.result())
            except WouldBlock:
                res = None
            except BaseException as e:  # noqa
                res = ('raise', self.label(e))
        return (c.status, f.done(), self.label(c.exception), res, self.cb_runs, self.cl_runs)


def coord_bfs(depth, deadline):
    def make():
        return Impl(), Ref()

    def ops_of(impl, model):
        ops = list(OPS)
        if model.cbs >= 1:
            ops.remove(('addcb',))
        if model.cls >= 1:
            ops.remove(('addcl',))
        return ops

    def step(impl, model, op):
        errors = []
        was_done = model.done()
        exp = model.apply(op)
        got = impl.apply(op)
        if got != exp:
            errors.append((f'C17:coord:{op[0]}:return', f'{op} -> {got}, reference {exp}'))
        o_i, o_m = impl.observe(), model.observe()
        if o_i != o_m and not errors:
            names = ('status', 'done()', 'exception', 'result()', 'done-callbacks run', 'cleanups run')
            diff = [f'{n}: {a!r} (reference {b!r})' for n, a, b in zip(names, o_i, o_m) if a != b]
            what = next(n for n, a, b in zip(names, o_i, o_m) if a != b).split('(')[0].strip().replace(' ', '-')
            errors.append((f'C17:coord:{op[0]}:{what}', f'after {op}: ' + '; '.join(diff)))
        if not errors:
            st, dn, ex, res, _, _ = o_i
            if was_done and not dn:
                errors.append(('C17:coord:done-regressed', f'done() went True -> False at {op}'))
            if res is not None:   # announced
                if (ex is not None) != (st in ('failed', 'cancelled')):
                    errors.append(('C17:coord:inconsistent', f'announced with status {st} and exception {ex}'))
        return (exp, o_m[0]), errors

    def canon(impl, model):
        return (model.state(), bfs.snapshot(impl.c), impl.cb_runs, impl.cl_runs)

    return bfs.bfs(make, ops_of, step, canon, depth, deadline=deadline)


# ---------------------------------------------------------------------------
# (b) interleavings
# ---------------------------------------------------------------------------

BASES = {
    'fresh': [],
    'running': [('queued',), ('running',)],
    'running+cb': [('addcb',), ('addcl',), ('queued',), ('running',)],
    'failed': [('queued',), ('running',), ('exc', 'e1', False)],
    'cancelled-announced': [('addcb',), ('cancel', 'm1', 'C')],
    'success-announced': [('queued',), ('running',), ('result', 'v1'), ('announce',)],
}

PAR_OPS = [('result', 'v2'), ('exc', 'e2', False), ('exc', 'e2', True), ('cancel', 'm2', 'F'),
           ('cancel', 'm1', 'C'), ('announce',), ('fexc', 'e3'), ('queued',), ('running',), ('addcb',)]


def seq_outcomes(base, ops):
    """Observations of every sequential order of ops (reference machine)."""
    outs = set()
    for perm in itertools.permutations(range(len(ops))):
        m = Ref()
        for op in base:
            m.apply(op)
        rets = [None] * len(ops)
        for i in perm:
            rets[i] = m.apply(ops[i])
        outs.add((tuple(rets), m.observe()))
    return outs


def par_scenario(cfg, prefix):
    harness.install()
    s = Sched(prefix=prefix, horizon=4000)
    harness.set_shared_fields(True)
    st = {}

    def main():
        impl = Impl()
        for op in cfg['base']:
            impl.apply(tuple(op))
        st['impl'] = impl
        rets = [None] * len(cfg['ops'])
        st['rets'] = rets
        seen = []
        st['seen'] = seen

        def worker(i, op):
            rets[i] = impl.apply(tuple(op))

        def observer():
            a = impl.f.done()
            b = impl.f.done()
            seen.append((a, b))
        ths = [s.spawn(lambda i=i, op=op: worker(i, op), f'op{i}') for i, op in enumerate(cfg['ops'])]
        ths.append(s.spawn(observer, 'obs'))
        for t in ths:
            s.point('join', t.name, enabled=lambda t=t: t.state == detsched.DONE)
        st['obs'] = impl.observe()
    try:
        s.run(main)
    finally:
        harness.set_shared_fields(False)
    x = explore.Exec()
    x.decisions = [d.as_tuple() for d in s.decisions]
    x.outcome = s.outcome
    x.steps = s.step
    x.extra['max_threads'] = s.max_threads
    if s.outcome != 'ok':
        x.violations.append({'sig': f'C17:par:{s.outcome}', 'msg': f'{s.outcome}: {s.outcome_detail}'})
    else:
        got = (tuple(st['rets']), st['obs'])
        allowed = cfg['_allowed']
        if got not in allowed:
            x.violations.append({'sig': 'C17:par:not-sequential',
                                 'msg': f'final state {got} is not the outcome of any sequential order; allowed {sorted(map(str, allowed))}'})
        for a, b in st['seen']:
            if a and not b:
                x.violations.append({'sig': 'C17:par:done-regressed', 'msg': 'observer saw done() True then False'})
        crashed = [t for t in s.threads if t.exc is not None]
        if crashed and not x.violations:
            x.violations.append({'sig': 'C17:par:exception', 'msg': f'{crashed[0].name}: {crashed[0].exc!r}'})
        x.signature = got
    x.sample = {'base': cfg['name'], 'ops': cfg['ops']}
    return x


def _par_job(job):
    cfg, bound, cap = job
    cfg = dict(cfg)
    cfg['_allowed'] = seq_outcomes([tuple(o) for o in cfg['base']], [tuple(o) for o in cfg['ops']])
    st = explore.explore(lambda p: par_scenario(cfg, p), bound, forced_cost=0, max_execs=cap)
    return {k: v for k, v in cfg.items() if k != '_allowed'}, st


def par_configs(tier):
    cfgs = []
    bases = ['fresh', 'running+cb', 'failed', 'cancelled-announced'] if tier == 'quick' else list(BASES)
    for b in bases:
        for o1, o2 in itertools.combinations_with_replacement(PAR_OPS, 2):
            cfgs.append({'name': b, 'base': BASES[b], 'ops': [o1, o2]})
    if tier == 'thorough':
        trip = [('result', 'v2'), ('exc', 'e2', False), ('cancel', 'm2', 'F'), ('announce',), ('fexc', 'e3')]
        for b in ('fresh', 'running+cb'):
            for t in itertools.combinations(trip, 3):
                cfgs.append({'name': b, 'base': BASES[b], 'ops': list(t)})
    return cfgs


def replay(data):
    if data['kind'] == 'bfs':
        out = {}

        def go():
            impl, m = Impl(), Ref()
            tr = []
            for op in data['history']:
                op = tuple(op)
                e = m.apply(op)
                g = impl.apply(op)
                tr.append((op, g, e, impl.observe(), m.observe()))
            out['tr'] = tr
        Sched().run_inline(go)
        bad = [t for t in out['tr'] if t[1] != t[2] or t[3] != t[4]]
        return {'trace': out['tr'], 'violations': bad, 'digest': repr(out['tr'])}
    if data.get('kind') not in ('bfs', 'par'):
        return common.replay_manager(data)
    cfg = dict(data['cfg'])
    cfg['_allowed'] = seq_outcomes([tuple(o) for o in cfg['base']], [tuple(o) for o in cfg['ops']])
    x = par_scenario(cfg, data['choices'])
    return {'outcome': x.outcome, 'violations': x.violations, 'digest': repr(x.decisions)}


def run(tier, seed):
    t0 = time.time()
    viol = []
    cov = {'parts': {}}
    depth = 6 if tier == 'quick' else 7
    out = {}

    def go():
        out['r'] = coord_bfs(depth, t0 + (60 if tier == 'quick' else 600))
    Sched().run_inline(go)
    r = out['r']
    cov['parts']['coordinator bfs'] = {'states': r.states, 'transitions': r.transitions,
                                       'depth': r.depth_completed, 'caps_hit': r.caps_hit,
                                       'distinct_observations': len(r.distinct_obs)}
    for v in r.violations:
        viol.append({'sig': v['sig'], 'msg': v['msg'] + f' history={v["history"]}',
                     'replay': {'kind': 'bfs', 'history': v['history']}})
    cfgs = par_configs(tier)
    bound = 2 if tier == 'quick' else 3
    res = explore.run_jobs(_par_job, [(c, (2 if len(c['ops']) == 3 else bound), 300000) for c in cfgs], chunksize=2)
    tot = explore.Stats()
    for cfg, st in res:
        tot.merge(st)
        for ch, v in st.violations:
            viol.append({'sig': v['sig'], 'msg': v['msg'] + f' base={cfg["name"]} ops={cfg["ops"]}',
                         'replay': {'kind': 'par', 'cfg': cfg, 'choices': ch}})
    cov['parts']['interleavings'] = dict(tot.to_dict(), harnesses=len(cfgs), preemption_bound=bound,
                                         max_threads=tot.max_threads)
    # end-to-end: the same clauses judged on the field-write timeline of manager scenarios
    ejobs = catalog.jobs_for('C17', tier, seed)
    ecov, eviol = common.run_catalogue(ejobs, tier, 'C17')
    viol.extend(eviol)
    cov['parts']['manager scenarios'] = ecov
    tot.caps_hit = list(tot.caps_hit) + list(ecov['caps_hit'])
    cov.update({
        'states': r.states + tot.states + ecov['states'], 'transitions': r.transitions + tot.transitions + ecov['transitions'],
        'traces_validated_against_impl': r.transitions + tot.executions + ecov['executions'],
        'evaluations': r.transitions + tot.executions + ecov['executions'],
        'distinct_nontrivial': len(r.distinct_obs) + len(tot.signatures) + ecov['distinct_outcomes'],
        'rule': 'BFS: all sequences of 13 coordinator/future operations to the depth bound, states merged on the reference state '
                '(status, exception, result, event, pending callbacks/cleanups) - every merged state also has equal observations; '
                'interleavings: all schedules within the preemption bound of 2-3 single-operation threads + observer, shared fields '
                '_status/_exception/_result are scheduling points; distinct = distinct (op, outcome) / final observations; '
                'manager scenarios: cancel x fault, cancel x preemption, two faults on 7 transfer shapes with the status / exception '
                'write timeline of the real tasks judged (terminal states absorbing except for the final success; first error wins)',
        'samples': r.samples[:2] + tot.samples[:2],
        'exhaustive': not r.caps_hit and not tot.caps_hit,
        'caps_hit': r.caps_hit + tot.caps_hit,
        'bfs_depth': depth,
    })
    return {'coverage': cov, 'violations': viol, 'level': 'model_checking',
            'assumptions': ['"status only moves forward" is read as: done states are absorbing (queued<->running order among non-done states is not constrained by the reference)',
                            're-entrant callbacks are exercised under C04, not here']}
