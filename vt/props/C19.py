"""C19 - process-pool downloads finish only after all jobs, with cleanup.

The cross-process protocol is replayed in-process under the deterministic
scheduler: the real ProcessPoolDownloader, GetObjectSubmitter, GetObjectWorker,
TransferMonitor and ProcessPoolTransferFuture objects; `start/join` of the
process classes run the real `run()` in controlled threads, the multiprocessing
queues are DetQueues, the manager returns a real in-process TransferMonitor.
What is lost: pickling, proxy round-trips, real signals (DESIGN.md section 4).
"""
import os
import random
import time

from .. import harness, explore, detsched, statereset
from ..detsched import Sched, DetQueue, SHIM, AbortExecution
from ..env.s3 import FakeS3, FakeClient, FaultPlan
from ..env.fs import FaultyOSUtils, ScratchDir
from ..harness import BUCKET, payload
from . import common

harness.install()
import s3transfer.processpool as pp  # noqa: E402
from s3transfer.exceptions import CancelledError  # noqa: E402

_REAL = {}


class _MP:
    Queue = DetQueue


class _Signal:
    SIGINT = 2
    SIG_IGN = 1

    @staticmethod
    def signal(*a):
        return None


class InProcMonitor(pp.TransferMonitor):
    """real TransferMonitor + the proxy method the future uses after Ctrl-C, and logging"""

    def _connect(self):
        pass

    def notify_done(self, transfer_id):
        s = detsched.active()
        w = s.user['ppw']
        w.at_done(transfer_id)
        return super().notify_done(transfer_id)

    def notify_job_complete(self, transfer_id):
        s = detsched.active()
        s.emit('pp.job_complete', tid=transfer_id)
        return super().notify_job_complete(transfer_id)

    def notify_cancel_all_in_progress(self):
        # (observation) which downloads are unfinished at the moment the Ctrl-C handler cancels
        # judged when the cancel pass has RETURNED: a download that is still unfinished then must carry
        # the cancellation (one that finished while the pass was running legitimately keeps its result -
        # an earlier version took the snapshot before the pass and raised a false alarm at 2 preemptions)
        s = detsched.active()
        r = super().notify_cancel_all_in_progress()
        s.emit('pp.cancel_all', undone=[tid for tid, st in self._transfer_states.items()
                                        if not st.done and st.exception is None])
        return r


class InProcManager:
    def start(self, *a, **k):
        pass

    def TransferMonitor(self):
        return InProcMonitor()

    def shutdown(self):
        detsched.active().emit('pp.manager_shutdown')


def _start(self):
    s = detsched.active()
    s.point('proc.start', type(self).__name__)
    self._vt_thread = s.spawn(self.run, type(self).__name__.replace('GetObject', '').lower())


def _join(self, timeout=None):
    s = detsched.active()
    t = self._vt_thread
    r = s.point('proc.join', t.name, enabled=lambda: t.state == detsched.DONE, interruptible=True)
    if r == 'interrupt':
        raise KeyboardInterrupt()


def _create_client(self):
    return detsched.active().user['ppw'].client


def install_pp():
    if _REAL:
        return
    _REAL['done'] = True
    pp.threading = SHIM
    pp.multiprocessing = _MP
    pp.signal = _Signal
    pp.TransferMonitorManager = InProcManager
    pp.BaseS3TransferProcess.start = _start
    pp.BaseS3TransferProcess.join = _join
    pp.ClientFactory.create_client = _create_client
    pp.OSUtils = lambda: detsched.active().user['ppw'].osutil


class PPWorld:
    def __init__(self, sched, cfg, scratch):
        self.sched = sched
        self.cfg = cfg
        self.scratch = scratch
        self.s3 = FakeS3(sched)
        f = cfg.get('faults') or {}
        self.client = FakeClient(self.s3, sched, plan=FaultPlan(sites=f.get('sites', ()), retryable_kinds=(0,)))
        self.osutil = FaultyOSUtils(sched, [x for x in f.get('sites', ()) if x.startswith('fs:')])
        self.futures = []
        self.outcomes = {}
        self.snap = {}
        self.errors = []
        self.expected = {}
        self.paths = {}
        self.jobs_put = {}

    def at_done(self, tid):
        s = self.sched
        s.emit('pp.done', tid=tid)
        p = self.paths.get(tid)
        if p is None:
            return
        listing = sorted(os.listdir(self.scratch.path))
        try:
            with open(p, 'rb') as fh:
                cur = fh.read()
        except FileNotFoundError:
            cur = None
        self.snap[tid] = (listing, cur)


def _nm(cfg, i):
    """destination base name of download i; `long_names`: names at the file-system limit that differ
    only after their 246th character (temporary names are the first 246 characters + a random suffix)"""
    if cfg.get('long_names'):
        return 'n' * 246 + f'-{i:04d}.bin'
    return f'dst{i}'


def run_pp(cfg, prefix, scratch):
    """cfg: workers, downloads=[dict(size,t,c,pre)], script, inject, faults"""
    harness.install()
    install_pp()
    statereset.register(pp)
    statereset.restore()
    scratch.reset()
    random.seed(cfg.get('seed', 0) * 131 + 7)
    s = Sched(prefix=prefix, horizon=20000)
    if cfg.get('granularity', 'coarse') == 'coarse':
        s.nopreempt = detsched.COARSE_SKIP
    w = PPWorld(s, cfg, scratch)
    s.user['ppw'] = w
    detsched.install_shared_fields(pp.TransferState, ('_exception', '_jobs_to_complete'))
    # count jobs put on the worker queue
    orig_put = pp.GetObjectSubmitter._submit_get_object_job

    def counting_put(self, **kw):
        w.jobs_put[kw['transfer_id']] = w.jobs_put.get(kw['transfer_id'], 0) + 1
        s.emit('pp.job_put', tid=kw['transfer_id'], offset=kw['offset'])
        return orig_put(self, **kw)
    pp.GetObjectSubmitter._submit_get_object_job = counting_put

    def injector(inj):
        if inj['kind'] == 'cancel':
            tgt = inj.get('target', 0)
            s.point('inject.cancel', tgt, enabled=lambda: len(w.futures) > tgt)
            s.emit('inject', kind='cancel', target=tgt, done_before=w.futures[tgt].done())
            w.futures[tgt].cancel()
        elif inj['kind'] == 'poll':
            # the user asks the futures whether they are done, at an arbitrary moment
            s.point('inject.poll', 0, enabled=lambda: len(w.futures) >= 1)
            s.emit('inject', kind='poll')
            for i, f in enumerate(w.futures):
                if f.done():
                    s.emit('observe.done', idx=i, tid=f.meta.transfer_id, listing=sorted(os.listdir(scratch.path)))
        elif inj['kind'] == 'ctrlc':
            s.point('inject.ctrlc', 0, enabled=lambda: len(w.futures) >= 1)
            s.emit('inject', kind='ctrlc', done_before=[f.done() for f in w.futures])
            s.deliver_interrupt(s.threads[0])

    def collect(i):
        try:
            w.futures[i].result()
            w.outcomes[i] = ('ok', None)
        except KeyboardInterrupt:
            s.emit('user.kbd', where=f'result{i}')
            raise
        except AbortExecution:
            raise
        except BaseException as e:  # noqa
            w.outcomes[i] = ('exc', e)

    def main():
        for inj in cfg.get('inject') or ():
            s.spawn(lambda inj=inj: injector(inj), f"inj-{inj['kind']}", role='inject', prio=1)
        d = pp.ProcessPoolDownloader(config=pp.ProcessTransferConfig(
            multipart_threshold=cfg['t'], multipart_chunksize=cfg['c'], max_request_processes=cfg['workers']))
        script = cfg.get('script', 'with')

        def submit_all():
            for i, dl in enumerate(cfg['downloads']):
                key = f'k{i}'
                data = payload(dl['size'], cfg.get('seed', 0), i)
                w.s3.put(BUCKET, key, data)
                path = os.path.join(scratch.path, _nm(cfg, i))
                if dl.get('pre') is not None:
                    with open(path, 'wb') as fh:
                        fh.write(dl['pre'].encode())
                w.expected[i] = data
                f = d.download_file(BUCKET, key, path, expected_size=dl.get('expected_size'))
                w.paths[f.meta.transfer_id] = path
                w.futures.append(f)
                s.emit('user.submitted', idx=i)
        try:
            if script == 'with':
                with d:
                    submit_all()
                    for i in range(len(w.futures)):
                        collect(i)
            elif script == 'with_noresult':
                with d:
                    submit_all()
            elif script == 'with_kbd':
                with d:
                    submit_all()
                    s.point('user.body', 'with')
                    raise KeyboardInterrupt()
            elif script == 'with_result0_kbd':
                # the first download is waited for, then Ctrl-C leaves the block: a mix of
                # finished and unfinished downloads at the moment of the interrupt
                with d:
                    submit_all()
                    collect(0)
                    s.point('user.body', 'with')
                    raise KeyboardInterrupt()
            elif script == 'shutdown':
                submit_all()
                d.shutdown()
        except KeyboardInterrupt:
            s.emit('user.kbd', where='with')
        s.emit('user.shutdown_returned', done=[f.done() for f in w.futures])
        for i in range(len(w.futures)):
            if i not in w.outcomes:
                # a future that is not done would block forever here: judged via done flags
                if w.futures[i].done():
                    collect(i)
        w.script_done = True

    try:
        w.script_done = False
        if cfg.get('monitor_fs'):
            def mon(sch):
                if getattr(w, 'fs_violation', None):
                    return
                for i, dl in enumerate(cfg['downloads']):
                    path = os.path.join(scratch.path, _nm(cfg, i))
                    try:
                        with open(path, 'rb') as fh:
                            cur = fh.read()
                    except FileNotFoundError:
                        cur = None
                    pre = dl.get('pre')
                    pre_b = pre.encode() if pre is not None else None
                    exp = w.expected.get(i)
                    if cur != pre_b and exp is not None and cur != exp:
                        w.fs_violation = (f'at step {sch.step} the destination of download {i} holds {cur!r} '
                                          f'(previous {pre_b!r}, object {exp!r})')
            s.on_point = mon
        s.run(main)
    finally:
        detsched.uninstall_shared_fields(pp.TransferState, ('_exception', '_jobs_to_complete'))
        pp.GetObjectSubmitter._submit_get_object_job = orig_put
    w.listing = scratch.listing()
    return w


def judge(w):
    s = w.sched
    cfg = w.cfg
    out = []
    log = s.log
    if s.outcome == 'deadlock':
        out.append(('C19:deadlock', f'{s.outcome_detail}'))
        return out
    if s.outcome != 'ok':
        out.append((f'C19:{s.outcome}', str(s.outcome_detail)))
        return out
    for t in s.threads:
        if t.exc is not None and not isinstance(t.exc, KeyboardInterrupt):
            out.append(('C19:thread-crash', f'{t.name}: {t.exc!r}'))
    if not w.script_done:
        out.append(('C19:user-script-unfinished', ''))
    sh = next((e for e in log if e[2] == 'user.shutdown_returned'), None)
    if sh is not None:
        for i, dn in enumerate(sh[3]['done']):
            if not dn:
                out.append(('C19:not-done-after-shutdown', f'download {i} is not done although shutdown / with-exit returned'))
    kbd_in_with = any(e[2] == 'user.kbd' and e[3]['where'] == 'with' for e in log) and cfg.get('script') in ('with_kbd', 'with_result0_kbd')
    for i, f in enumerate(w.futures):
        tid = f.meta.transfer_id
        done_steps = [e[0] for e in log if e[2] == 'pp.done' and e[3]['tid'] == tid]
        put = [e[0] for e in log if e[2] == 'pp.job_put' and e[3]['tid'] == tid]
        comp = [e[0] for e in log if e[2] == 'pp.job_complete' and e[3]['tid'] == tid]
        # what the user sees: whenever future.done() answered True, every job of the download had been
        # accounted for by a worker and no temporary file of it was left
        for e in log:
            if e[2] == 'observe.done' and e[3]['tid'] == tid:
                n_comp = len([x for x in comp if x < e[0]])
                if n_comp < len(put):
                    out.append(('C19:future-done-before-all-jobs',
                                f'download {i}: future.done() was True at step {e[0]} with {n_comp}/{len(put)} jobs accounted for'))
                tmp = [] if cfg.get('long_names') else [x for x in e[3]['listing'] if x.startswith(f'dst{i}.')]
                if tmp:
                    out.append(('C19:future-done-with-temp-file', f'download {i}: future.done() was True at step {e[0]} while {tmp} existed'))
                break
        # (a second done notification is the mechanism's business; what the property excludes is
        #  its consequence: a download that nothing went wrong with and nobody cancelled reports failure)
        oc_i = w.outcomes.get(i)
        nothing_wrong = not w.client.injected and not w.osutil.injected and not any(
            (e[2] == 'inject' and e[3].get('kind') != 'poll') or e[2] == 'user.kbd' for e in log)
        if nothing_wrong and oc_i and oc_i[0] != 'ok':
            out.append(('C19:failed-without-fault',
                        f'download {i}: no job, file-system or client fault was injected and nothing was cancelled, yet result() raised '
                        f'{oc_i[1]!r} (done notified {len(done_steps)} time(s))'))
        if done_steps:
            d0 = done_steps[0]
            n_put_total = len(put)
            n_comp_before = len([x for x in comp if x < d0])
            if n_comp_before < n_put_total:
                out.append(('C19:done-before-all-jobs',
                            f'download {i} became done at step {d0} with {n_comp_before}/{n_put_total} jobs accounted for'))
            running = [c for c in w.s3.calls if c['op'] == 'GetObject' and c['kwargs'].get('Key') == f'k{i}' and
                       c['begin'] is not None and (c['begin'] > d0 or c['end'] is None or c['end'] > d0)]
            if running:
                c = running[0]
                out.append(('C19:done-while-job-running',
                            f'download {i} became done at step {d0} while GetObject {c["kwargs"].get("Range")} (begin {c["begin"]}, end {c["end"]}) had not finished'))
            listing, cur = w.snap.get(tid, (None, None))
            exc_at_done = None
            oc = w.outcomes.get(i)
            # (with names sharing their first 246 characters a temporary file cannot be told apart by name)
            temp = [] if cfg.get('long_names') else [x for x in (listing or []) if x.startswith(f'dst{i}.')]
            if temp:
                out.append(('C19:temp-file-at-done', f'download {i}: temporary file {temp} exists when done is set'))
            if oc and oc[0] == 'ok':
                if cur != w.expected[i]:
                    out.append(('C19:success-with-wrong-file', f'download {i}: result() returned but file holds {cur!r}, object {w.expected[i]!r}'))
            else:
                pre = cfg['downloads'][i].get('pre')
                pre_b = pre.encode() if pre is not None else None
                renamed = any(e[2] == 'fs.renamed' and e[3].get('to') == _nm(cfg, i) for e in log)
                if cur != pre_b and not (renamed and cur == w.expected[i]):
                    out.append(('C06:ppool:destination-changed-after-failure', f'download {i} failed ({oc}) but destination holds {cur!r} (previous {pre_b!r})'))
                    out.append(('C19:destination-changed-on-failure', f'download {i} failed ({oc}) but destination holds {cur!r} (previous {pre_b!r})'))
        if kbd_in_with:
            oc = w.outcomes.get(i)
            was_done = False
            inj = [e for e in log if e[2] == 'user.kbd']
            if oc and oc[0] == 'ok':
                # finished before the Ctrl-C: acceptable only if it was done when the
                # with-exit cancelled the unfinished downloads
                ca = [e for e in log if e[2] == 'pp.cancel_all']
                if ca and tid in ca[0][3]['undone']:
                    out.append(('C19:ctrlc-did-not-cancel',
                                f'download {i} succeeded: it was still unfinished, and not marked cancelled, when the Ctrl-C handler '
                                f'of the with-block had finished cancelling (such transfer ids: {ca[0][3]["undone"]})'))
            elif oc and not isinstance(oc[1], CancelledError):
                out.append(('C19:ctrlc-wrong-error', f'download {i}: {oc[1]!r}'))
    if getattr(w, 'fs_violation', None):
        out.append(('C06:ppool:partial-content-visible', w.fs_violation))
    # nothing left behind at the end
    finals = {_nm(cfg, i) for i in range(len(cfg['downloads']))}
    left = [x for x in w.listing if x not in finals and ('.' in x or cfg.get('long_names'))]
    if left:
        out.append(('C19:temp-file-left', f'{left} after all downloads finished'))
        out.append(('C06:ppool:temp-file-left', f'{left} after all downloads finished'))
    return out


_SD = None


def _sd():
    global _SD
    if _SD is None:
        _SD = ScratchDir('c19')
        import atexit
        atexit.register(_SD.cleanup)
    return _SD


def pp_exec(cfg, prefix, want='C19'):
    w = run_pp(cfg, prefix, _sd())
    s = w.sched
    x = explore.Exec()
    x.decisions = [d.as_tuple() for d in s.decisions]
    x.outcome = s.outcome
    x.detail = s.outcome_detail
    x.steps = s.step
    x.extra['max_threads'] = s.max_threads
    seen = set()
    for sig, msg in judge(w):
        if not sig.startswith(want):
            continue
        if sig not in seen:
            seen.add(sig)
            x.violations.append({'sig': sig, 'msg': msg})
    inj = [e for e in s.log if e[2] == 'inject']
    x.extra['inject_ran'] = int(bool(inj))
    x.extra['inject_effective'] = int(any(e[3].get('done_before') is False or (isinstance(e[3].get('done_before'), list) and not all(e[3]['done_before'])) for e in inj))
    x.extra['n_injected'] = len(w.client.injected) + len(w.osutil.injected)
    x.signature = explore.sig_hash((s.outcome, tuple((i, o[0] if o[0] == 'ok' else type(o[1]).__name__) for i, o in sorted(w.outcomes.items())),
                                    tuple((c['op'], c['kwargs'].get('Range'), c['outcome'], c['tname']) for c in w.s3.calls)))
    x.sample = {'outcomes': {i: (o[0] if o[0] == 'ok' else repr(o[1])) for i, o in w.outcomes.items()},
                'calls': [(c['op'], c['kwargs'].get('Range'), c['tname']) for c in w.s3.calls][:12]}
    return x


def _job(job):
    cfg = job['cfg']
    st = explore.explore(lambda p: pp_exec(cfg, p, job.get('want', 'C19')), job['bound'], forced_cost=job.get('forced_cost', 1),
                         max_execs=job.get('max_execs'), root_prefix=job.get('root_prefix', ()),
                         root_cost=job.get('root_cost'), root_only=job.get('root_only', False))
    if job.get('root_only'):
        kids = explore.first_level(st.root_exec, job['bound'], job.get('forced_cost', 1))
        st.root_exec = None
        return {'name': job['name'], 'stats': st, 'violations': [], 'kids': kids}
    viol = [{'sig': v['sig'], 'msg': v['msg'] + f' | cfg={cfg} choices={ch}',
             'replay': {'kind': 'pp', 'cfg': cfg, 'choices': ch, 'want': job.get('want', 'C19')}} for ch, v in st.violations]
    return {'name': job['name'], 'stats': st, 'violations': viol}


def jobs(tier):
    q = tier == 'quick'
    out = []
    PL = {'sched': 1} if q else {'sched': 2}
    FA = {'sched': 1, 'env': 1} if q else {'sched': 2, 'env': 1}
    CA = {'inject': 1, 'sched': 1} if q else {'inject': 1, 'sched': 2}
    FS = ['s3:', 'stream:retryable', 'stream:fatal', 'fs:allocate', 'fs:rename', 'fs:open']
    shapes = [(1, [dict(size=3)]), (2, [dict(size=5)]), (3, [dict(size=7)]), (1, [dict(size=5)]),
              (2, [dict(size=5), dict(size=3)]), (2, [dict(size=8, pre='OLD')])]
    for workers, dls in shapes:
        base = dict(workers=workers, downloads=dls, t=4, c=2)
        name = f'w={workers} sizes={[d["size"] for d in dls]}'
        out.append({'name': f'plain {name}', 'cfg': dict(base), 'bound': PL})
        out.append({'name': f'shutdown {name}', 'cfg': dict(base, script='shutdown'), 'bound': PL})
        out.append({'name': f'fault {name}', 'cfg': dict(base, faults={'sites': FS}), 'bound': FA})
        out.append({'name': f'cancel {name}', 'cfg': dict(base, inject=[{'kind': 'cancel', 'target': 0}]), 'bound': CA})
        out.append({'name': f'cancel+fault {name}', 'cfg': dict(base, inject=[{'kind': 'cancel', 'target': 0}], faults={'sites': FS}),
                    'bound': {'inject': 1, 'env': 1, 'sched': 0 if q else 1}})
        out.append({'name': f'with-kbd {name}', 'cfg': dict(base, script='with_kbd'), 'bound': PL})
        out.append({'name': f'ctrlc-at-result {name}', 'cfg': dict(base, inject=[{'kind': 'ctrlc'}]), 'bound': CA})
    # destination names that share their first 246 characters
    for workers, dls in ((2, [dict(size=3), dict(size=3)]), (2, [dict(size=5), dict(size=3)])):
        base = dict(workers=workers, downloads=dls, t=4, c=2, long_names=True)
        out.append({'name': f'long names w={workers} sizes={[d["size"] for d in dls]}', 'cfg': dict(base), 'bound': {'sched': 2}})
    # future.done() polled at every point: plain, x one fault, x cancel
    for workers, dls in ((1, [dict(size=5)]), (2, [dict(size=7)]), (2, [dict(size=5), dict(size=3)])):
        base = dict(workers=workers, downloads=dls, t=4, c=2)
        name = f'w={workers} sizes={[d["size"] for d in dls]}'
        out.append({'name': f'poll-done {name}', 'cfg': dict(base, inject=[{'kind': 'poll'}]), 'bound': {'inject': 1, 'sched': 0 if q else 1}})
        out.append({'name': f'poll-done+fault {name}', 'cfg': dict(base, inject=[{'kind': 'poll'}], faults={'sites': FS}),
                    'bound': {'inject': 1, 'env': 1, 'sched': 0}})
        out.append({'name': f'poll-done+cancel {name}', 'cfg': dict(base, inject=[{'kind': 'cancel', 'target': 0}, {'kind': 'poll'}]),
                    'bound': {'inject': 2, 'sched': 0}})
    for workers, dls in ((1, [dict(size=3), dict(size=5)]), (2, [dict(size=3), dict(size=7)]), (2, [dict(size=5), dict(size=3), dict(size=5)])):
        base = dict(workers=workers, downloads=dls, t=4, c=2)
        out.append({'name': f'result-of-first-then-kbd w={workers} sizes={[d["size"] for d in dls]}',
                    'cfg': dict(base, script='with_result0_kbd'), 'bound': PL})
    # size supplied (no HeadObject), 4 jobs
    out.append({'name': 'expected_size 4 jobs', 'cfg': dict(workers=2, downloads=[dict(size=8, expected_size=8)], t=4, c=2), 'bound': PL})
    return out


def replay(data):
    x = pp_exec(data['cfg'], data['choices'], data.get('want', 'C19'))
    return {'outcome': x.outcome, 'detail': x.detail, 'violations': x.violations, 'sample': x.sample,
            'digest': repr(x.decisions) + str(x.signature)}


def c06_jobs(tier):
    q = tier == 'quick'
    FS = ['s3:', 'stream:retryable', 'stream:fatal', 'fs:allocate', 'fs:rename', 'fs:open']
    out = []
    for workers, dls in ((2, [dict(size=5, pre='OLD')]), (2, [dict(size=5)]), (1, [dict(size=3, pre='OLD')])):
        base = dict(workers=workers, downloads=dls, t=4, c=2, monitor_fs=True)
        name = f'ppool w={workers} {dls}'
        out.append({'name': f'fault {name}', 'cfg': dict(base, faults={'sites': FS}), 'want': 'C06',
                    'bound': {'sched': 1, 'env': 1} if q else {'sched': 2, 'env': 1}})
        out.append({'name': f'cancel {name}', 'cfg': dict(base, inject=[{'kind': 'cancel', 'target': 0}]), 'want': 'C06',
                    'bound': {'inject': 1, 'sched': 1} if q else {'inject': 1, 'sched': 2}})
    return out


def run_job_list(js, seed, tier):
    for j in js:
        j['cfg']['seed'] = seed
        j.setdefault('max_execs', 300000 if tier == 'quick' else 3000000)
    roots = explore.run_jobs(_job, [dict(j, root_only=True) for j in js])
    allj = []
    for j, r in zip(js, roots):
        allj.append(dict(j, bound={'sched': 0, 'env': 0, 'inject': 0}, _group=j['name']))
        for pre, cost in r['kids']:
            allj.append(dict(j, root_prefix=pre, root_cost=cost, _group=j['name']))
    res = explore.run_jobs(_job, allj)
    tot = explore.Stats()
    viol = []
    for r in res:
        tot.merge(r['stats'])
        viol.extend(r['violations'])
    return tot, viol


def run(tier, seed):
    js = jobs(tier)
    for j in js:
        j['cfg']['seed'] = seed
        j.setdefault('max_execs', 300000 if tier == 'quick' else 3000000)
    # split big jobs by prefix
    roots = explore.run_jobs(_job, [dict(j, root_only=True) for j in js])
    allj = []
    for j, r in zip(js, roots):
        allj.append(dict(j, bound={'sched': 0, 'env': 0, 'inject': 0}, _group=j['name']))
        for pre, cost in r['kids']:
            allj.append(dict(j, root_prefix=pre, root_cost=cost, _group=j['name']))
    res = explore.run_jobs(_job, allj)
    tot = explore.Stats()
    viol = []
    per = {}
    ran = {}
    for r, j in zip(res, allj):
        tot.merge(r['stats'])
        viol.extend(r['violations'])
        g = j['_group']
        per[g] = per.get(g, 0) + r['stats'].executions
        if j['cfg'].get('inject'):
            ran[g] = ran.get(g, 0) + r['stats'].counters.get('inject_ran', 0)
    for g, n in ran.items():
        if n == 0 and not viol:
            raise detsched.HarnessError(f'vacuous job: injection never ran in {g}')
    cov = {
        'states': tot.states, 'transitions': tot.transitions, 'traces_validated_against_impl': tot.executions,
        'evaluations': tot.executions, 'distinct_nontrivial': len(tot.signatures),
        'rule': 'every schedule of user thread, submitter, workers (+ cancelling thread) within the deviation budget, faults in '
                'HeadObject/GetObject/stream/allocate/rename, on the real process-pool classes wired in-process; distinct = distinct '
                '(outcomes, request order incl. executing worker) signatures',
        'samples': tot.samples[:3], 'caps_hit': tot.caps_hit, 'exhaustive': not tot.caps_hit,
        'harnesses': len(js), 'executions_per_harness': per, 'max_threads': tot.max_threads,
        'executions_with_injected_fault': tot.counters.get('n_injected', 0),
        'executions_with_cancel_before_done': tot.counters.get('inject_effective', 0),
    }
    return {'coverage': cov, 'violations': viol, 'level': 'model_checking',
            'assumptions': ['the cross-process protocol is replayed in-process: pickling, proxy round-trips, real signal delivery and process death are not modelled',
                            'TransferState._exception/_jobs_to_complete are scheduling points (they are read without their lock)']}
