"""C20 - CRT manager glue: one permit per transfer, ordered completion, temp cleanup.

The real CRTTransferManager python layer against a stub awscrt (not installed in
this image): user thread + stub event-loop thread under the deterministic
scheduler; permits scaled from 128 to 2; every sequence of submissions with
every construction outcome, completions in every order with success / error /
cancel, shutdown(cancel in {False, True}).
"""
import itertools
import os
import random

from .. import harness, explore, detsched, statereset
from ..detsched import Sched, SHIM, AbortExecution
from ..env import crtstub
from ..env.fs import FaultyOSUtils, ScratchDir, SinkStream, SourceStream
from ..harness import payload

harness.install()
crtstub.install()
import s3transfer.crt as crt  # noqa: E402
from s3transfer.subscribers import BaseSubscriber  # noqa: E402

crt.threading = SHIM
statereset.register(crt)
PERMITS = 2


class Rec(BaseSubscriber):
    def __init__(self, w, idx, raise_queued=False):
        self.w, self.idx, self.raise_queued = w, idx, raise_queued

    def on_queued(self, future, **kw):
        self.w.sched.emit('cb.queued', idx=self.idx)
        if self.raise_queued:
            raise RuntimeError('on_queued raises')

    def on_progress(self, future, bytes_transferred, **kw):
        self.w.sched.emit('cb.progress', idx=self.idx, n=bytes_transferred)

    def on_done(self, future, **kw):
        s = self.w.sched
        s.point('cb.done', self.idx)
        s.emit('cb.done', idx=self.idx)
        s.emit('cb.done.end', idx=self.idx)


class Serializer(crt.BaseCRTRequestSerializer):
    def __init__(self, w, fail):
        self.w, self.fail, self.n = w, set(fail), 0

    def serialize_http_request(self, transfer_type, future):
        i = future.meta.transfer_id
        if i in self.fail:
            raise ValueError(f'serializer fails for transfer {i}')
        return crtstub.HttpRequest('GET', '/x')

    def translate_crt_exception(self, exception):
        return None


class World:
    def __init__(self, sched, cfg, scratch):
        self.sched, self.cfg, self.scratch = sched, cfg, scratch
        self.futures = []
        self.outcomes = {}
        self.paths = {}
        self.req2idx = {}
        self.sem_max = 0

    def data_for(self, r):
        return payload(5, 0, r.idx)


def run_crt(cfg, prefix, scratch):
    """cfg: transfers=[(kind, construction)], shutdown_cancel, cancel_each"""
    harness.install()
    scratch.reset()
    random.seed(11)
    statereset.restore()
    s = Sched(prefix=prefix, horizon=20000)
    s.nopreempt = detsched.COARSE_SKIP
    w = World(s, cfg, scratch)
    trs = cfg['transfers']
    fail_ser = [i for i, (k, c) in enumerate(trs) if c == 'serializer']
    # make_request call indices: transfers whose construction reaches make_request, in order
    reach = [i for i, (k, c) in enumerate(trs) if c in ('ok', 'make_request')]
    fail_mr = [reach.index(i) for i, (k, c) in enumerate(trs) if c == 'make_request']

    def main():
        client = crtstub.StubCRTClient(s, w, fail_make_request=fail_mr)
        w.client = client
        crt.OSUtils = lambda: FaultyOSUtils(s)
        m = crt.CRTTransferManager(client, Serializer(w, fail_ser))
        sem = getattr(m, '_semaphore', None)
        if not isinstance(sem, detsched.Semaphore) or sem._initial != 128:
            raise detsched.HarnessError(f'expected a 128-permit Semaphore on the manager, found {sem!r}')
        m._semaphore = detsched.Semaphore(PERMITS)
        w.sem = m._semaphore
        for i, (kind, cons) in enumerate(trs):
            subs = [Rec(w, i, raise_queued=(cons == 'on_queued'))]
            s.emit('user.submit', idx=i, kind=kind, cons=cons)
            try:
                if kind == 'up-path':
                    p = os.path.join(scratch.path, f'src{i}')
                    with open(p, 'wb') as fh:
                        fh.write(payload(5))
                    f = m.upload(p, 'bkt', f'k{i}', subscribers=subs)
                elif kind == 'up-stream':
                    f = m.upload(SourceStream(s, payload(5), seekable=True), 'bkt', f'k{i}', subscribers=subs)
                elif kind == 'dl-path':
                    p = os.path.join(scratch.path, f'dst{i}')
                    w.paths[i] = p
                    f = m.download('bkt', f'k{i}', p, subscribers=subs)
                elif kind == 'dl-stream':
                    f = m.download('bkt', f'k{i}', SinkStream(s, seekable=False), subscribers=subs)
                else:
                    f = m.delete('bkt', f'k{i}', subscribers=subs)
                w.futures.append(f)
            except AbortExecution:
                raise
            except BaseException as e:  # noqa
                s.emit('user.submit_raised', idx=i, exc=repr(e))
                w.futures.append(None)
            s.emit('user.submitted', idx=i, sem=w.sem._value)
        if cfg.get('cancel_each'):
            for f in w.futures:
                if f is not None:
                    f.cancel()
        try:
            m.shutdown(cancel=cfg.get('shutdown_cancel', False))
            s.emit('user.shutdown_returned', sem=w.sem._value)
        except AbortExecution:
            raise
        except BaseException as e:  # noqa
            s.emit('user.shutdown_raised', exc=repr(e))
        for i, f in enumerate(w.futures):
            if f is None:
                continue
            try:
                f.result()
                w.outcomes[i] = ('ok', None)
            except AbortExecution:
                raise
            except BaseException as e:  # noqa
                w.outcomes[i] = ('exc', e)
        client.closing = True
        w.script_done = True

    def watch(sch):
        sem = getattr(w, 'sem', None)
        if sem is not None and sem._value > w.sem_max:
            w.sem_max = sem._value
    s.on_point = watch
    w.script_done = False
    s.run(main)
    w.listing = scratch.listing()
    return w


def judge(w):
    s, cfg = w.sched, w.cfg
    log = s.log
    out = []
    if s.outcome != 'ok':
        out.append((f'C20:{s.outcome}', f'{s.outcome_detail}'))
        return out
    for t in s.threads:
        if t.exc is not None:
            out.append(('C20:thread-crash', f'{t.name}: {t.exc!r}'))
    if not w.script_done:
        out.append(('C20:user-script-unfinished', ''))
        return out
    sem = w.sem
    if w.sem_max > PERMITS or sem._value > PERMITS:
        out.append(('C20:permit-released-without-acquire', f'semaphore reached {max(w.sem_max, sem._value)} with {PERMITS} permits'))
    if sem._value != PERMITS:
        out.append(('C20:permit-leak', f'semaphore at {sem._value}/{PERMITS} at quiescence (transfers {cfg["transfers"]})'))
    sh = next((e for e in log if e[2] == 'user.shutdown_returned'), None)
    raised = [e for e in log if e[2] == 'user.shutdown_raised']
    if raised:
        out.append(('C20:shutdown-raised', raised[0][3]['exc']))
    for i, (kind, cons) in enumerate(cfg['transfers']):
        if any(e[2] == 'user.submit_raised' and e[3]['idx'] == i for e in log):
            out.append(('C20:submit-raised', f'transfer {i} ({kind},{cons})'))
            continue
        dn = [e for e in log if e[2] == 'cb.done.end' and e[3]['idx'] == i]
        if len(dn) != 1:
            out.append((f'C20:on_done-{len(dn)}-times', f'transfer {i} ({kind},{cons})'))
        if sh is not None and (not dn or dn[0][0] > sh[0]):
            out.append(('C20:shutdown-before-done-callbacks', f'transfer {i}: on_done finished at {dn[0][0] if dn else None}, shutdown returned at {sh[0]}'))
        if kind == 'dl-path':
            p = w.paths[i]
            oc = w.outcomes.get(i)
            temps = [x for x in w.listing if x.startswith(f'dst{i}.')]
            if temps:
                out.append(('C20:temp-file-left', f'transfer {i}: {temps} (outcome {oc})'))
            exists = os.path.basename(p) in w.listing
            if oc and oc[0] == 'ok' and cons == 'ok':
                try:
                    with open(p, 'rb') as fh:
                        cur = fh.read()
                except FileNotFoundError:
                    cur = None
                if cur != payload(5, 0, _req_index(cfg, i)):
                    out.append(('C20:download-not-published', f'transfer {i} succeeded but destination holds {cur!r}'))
            elif exists:
                out.append(('C20:destination-after-failure', f'transfer {i} failed ({oc}) but the destination exists'))
    # the done event (wait_until_on_done_callbacks_complete) only after subscribers' on_done
    return out


def _req_index(cfg, i):
    reach = [j for j, (k, c) in enumerate(cfg['transfers']) if c == 'ok' or c == 'make_request']
    ok_only = [j for j in reach if cfg['transfers'][j][1] == 'ok']
    # request idx = position among calls that reached make_request
    return reach.index(i)


_SD = None


def _sd():
    global _SD
    if _SD is None:
        _SD = ScratchDir('c20')
        import atexit
        atexit.register(_SD.cleanup)
    return _SD


def crt_exec(cfg, prefix):
    w = run_crt(cfg, prefix, _sd())
    s = w.sched
    x = explore.Exec()
    x.decisions = [d.as_tuple() for d in s.decisions]
    x.outcome = s.outcome
    x.detail = s.outcome_detail
    x.steps = s.step
    x.extra['max_threads'] = s.max_threads
    seen = set()
    for sig, msg in judge(w):
        if sig not in seen:
            seen.add(sig)
            x.violations.append({'sig': sig, 'msg': msg})
    comp = tuple((e[3]['req'], e[3]['outcome']) for e in s.log if e[2] == 'crt.complete')
    x.signature = explore.sig_hash((s.outcome, comp, tuple((i, o[0]) for i, o in sorted(w.outcomes.items()))))
    x.sample = {'transfers': cfg['transfers'], 'completions': list(comp),
                'outcomes': {i: (o[0] if o[0] == 'ok' else type(o[1]).__name__) for i, o in w.outcomes.items()}}
    return x


def _job(job):
    tot = explore.Stats()
    viol = []
    for cfg in job['cfgs']:
        st = explore.explore(lambda p: crt_exec(cfg, p), job['bound'], forced_cost=1, max_execs=job.get('max_execs'),
                             keep_samples=1)
        tot.merge(st)
        for ch, v in st.violations:
            viol.append({'sig': v['sig'], 'msg': v['msg'] + f' | cfg={cfg} choices={ch}',
                         'replay': {'kind': 'crt', 'cfg': cfg, 'choices': ch}})
        if len(viol) >= 5:
            break
    return tot, viol


KINDS = ['up-path', 'up-stream', 'dl-path', 'dl-stream', 'delete']
CONS = ['ok', 'serializer', 'make_request', 'on_queued']


def configs(tier):
    cfgs = []
    L = 3
    kinds = ['up-path', 'dl-path', 'dl-stream', 'delete'] if tier == 'quick' else KINDS
    for ks in itertools.product(kinds, repeat=L):
        # at most one non-ok construction per sequence (quick) / any (thorough, fewer kinds combos)
        cons_sets = [('ok',) * L]
        for pos in range(L):
            for c in CONS[1:]:
                cc = ['ok'] * L
                cc[pos] = c
                cons_sets.append(tuple(cc))
        if tier == 'thorough':
            for a, b in itertools.product(CONS[1:], repeat=2):
                cons_sets.append((a, b, 'ok'))
                cons_sets.append(('ok', a, b))
        for cs in cons_sets:
            for sc in (False, True):
                cfgs.append({'transfers': list(zip(ks, cs)), 'shutdown_cancel': sc})
    if tier == 'thorough':
        for ks in itertools.product(['up-path', 'dl-path', 'delete'], repeat=4):
            cfgs.append({'transfers': [(k, 'ok') for k in ks], 'shutdown_cancel': False})
            cfgs.append({'transfers': [(k, 'ok') for k in ks], 'shutdown_cancel': True, 'cancel_each': True})
    return cfgs


def replay(data):
    x = crt_exec(data['cfg'], data['choices'])
    return {'outcome': x.outcome, 'detail': x.detail, 'violations': x.violations, 'sample': x.sample,
            'digest': repr(x.decisions) + str(x.signature)}


def run(tier, seed):
    cfgs = configs(tier)
    bound = {'env': 3, 'sched': 1} if tier == 'quick' else {'env': 4, 'sched': 2}
    nchunks = 64
    jobs = [{'cfgs': cfgs[i::nchunks], 'bound': bound, 'max_execs': 200000} for i in range(nchunks)]
    res = explore.run_jobs(_job, jobs)
    tot = explore.Stats()
    viol = []
    for st, v in res:
        tot.merge(st)
        viol.extend(v)
    cov = {
        'states': tot.states, 'transitions': tot.transitions, 'traces_validated_against_impl': tot.executions,
        'evaluations': tot.executions, 'distinct_nontrivial': len(tot.signatures),
        'rule': 'every sequence of 3 (thorough: also 4) submissions over the transfer kinds x construction outcomes (quick: at most one failing '
                'construction per sequence) x shutdown(cancel), completions in every order and with success/error/cancel outcomes within the '
                'environment-deviation budget, user thread + stub event-loop thread; permits scaled to 2; distinct = distinct (completion order+outcomes, results)',
        'samples': tot.samples[:3], 'caps_hit': tot.caps_hit, 'exhaustive': not tot.caps_hit,
        'sequences': len(cfgs), 'bound': bound, 'max_threads': tot.max_threads,
    }
    return {'coverage': cov, 'violations': viol, 'level': 'model_checking',
            'assumptions': ['awscrt is not installed: a stub S3Client completes requests (finished_future first, then on_done, on one event-loop thread) - trusted, cannot be validated against awscrt here',
                            'exceptions raised by python callbacks are swallowed by the CRT (logged), as awscrt does',
                            'subscribers that raise in on_done are outside the statement (paths listed: construction failure, success, error, cancel)']}
