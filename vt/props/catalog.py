"""Scenario catalogues: what is enumerated for each property.

A job is a dict for common.explore_job: scn (or scns), bound, want, ...
"""
import copy
import itertools

ADJ = {'min_size': 1, 'max_size': 1000, 'max_parts': 1000}
OBJ = {'o5': 5, 'o3': 3, 'o6': 6, 'o4': 4, 'o0': 0, 'o7': 7, 'o8': 8, 'o2': 2, 'o1': 1}


def cfg(**kw):
    c = dict(multipart_threshold=4, multipart_chunksize=2, io_chunksize=2,
             max_request_concurrency=2, max_submission_concurrency=1,
             max_request_queue_size=4, max_submission_queue_size=4,
             max_io_queue_size=4, num_download_attempts=2,
             max_in_memory_upload_chunks=2, max_in_memory_download_chunks=2)
    c.update(kw)
    return c


def scn(transfers, config=None, **kw):
    s = {'config': config or cfg(), 'adjuster': ADJ, 'transfers': transfers,
         'objects': dict(OBJ), 'granularity': 'coarse'}
    s.update(kw)
    return s


def T_up(src='path', size=5, **kw):
    return dict(op='upload', src=src, size=size, **kw)


def T_dl(dst='path', key='o5', **kw):
    return dict(op='download', dst=dst, key=key, **kw)


def T_cp(src_key='o5', **kw):
    return dict(op='copy', src_key=src_key, **kw)


def T_del(key='o3', **kw):
    return dict(op='delete', key=key, **kw)


def BD(tier):
    """deviation budgets per class"""
    if tier == 'quick':
        return dict(PLAIN={'sched': 1}, PLAIN2={'sched': 2}, FAULT={'sched': 1, 'env': 1}, FAULT2={'sched': 0, 'env': 2},
                    CANCEL={'inject': 1, 'sched': 1}, CANCELFAULT={'inject': 1, 'env': 1, 'sched': 0})
    return dict(PLAIN={'sched': 2}, PLAIN2={'sched': 3}, FAULT={'sched': 2, 'env': 1}, FAULT2={'sched': 1, 'env': 2},
                CANCEL={'inject': 1, 'sched': 2}, CANCELFAULT={'inject': 1, 'env': 1, 'sched': 1})


def job(name, s, bound, want, **kw):
    j = {'name': name, 'scn': s, 'bound': bound, 'want': want, 'forced_cost': 1}
    j.update(kw)
    return j


def history_scns(kinds, seed, cfgs=None):
    """Histories: every ordered pair (and a few triples) of transfer shapes run one after the other on
    ONE manager (use_threads=False), all per-transfer oracles applied to each of them: whatever an
    earlier transfer leaves behind in the manager, its config or the library must not change a
    later one (differential against the same shape run alone, which the sweeps cover)."""
    shapes = {
        'upload': [T_up('path', 5), T_up('path', 3), T_up('seekable', 7, start=2), T_up('nonseekable', 6), T_up('nonseekable', 0),
                   T_up('path', 9, subs=[{}, {}])],
        'download': [T_dl('path', 'o5'), T_dl('path', 'o3'), T_dl('nonseekable', 'o7'), T_dl('seekable', 'o6'), T_dl('path', 'o0'),
                     T_dl('nonseekable', 'o2', subs=[{'provide_size': True}])],
        'copy': [T_cp('o5'), T_cp('o3'), T_cp('o8')],
        'delete': [T_del('o4')],
    }
    pool = [t for k in kinds for t in shapes[k]]
    out = []
    for c in (cfgs or [cfg(), cfg(multipart_threshold=3, multipart_chunksize=3, io_chunksize=1)]):
        if 'upload' in kinds:
            # the same file uploaded again after it was rewritten (longer, shorter, across the threshold)
            for n1, n2 in ((3, 7), (7, 3), (5, 5), (0, 6), (9, 1)):
                sc = scn([T_up('path', n1), T_up('path', n2, path_of=0)], dict(c), seed=seed, script='fresh')
                out.append(inline(sc))
        for a, b in itertools.product(pool, pool):
            sc = scn([copy.deepcopy(a), copy.deepcopy(b)], dict(c), seed=seed, script='fresh',
                     adjuster={'min_size': 1, 'max_size': 1000, 'max_parts': 3})
            out.append(inline(sc))
    return out


# ---------------------------------------------------------------------------
# transfer catalogue used by the schedule-based properties
# ---------------------------------------------------------------------------

def base_transfers():
    """name -> transfer list (one transfer each), covering every type/mode"""
    return {
        'up-mp-path': [T_up('path', 5)],
        'up-mp-seekable': [T_up('seekable', 5, start=1)],
        'up-mp-nonseekable': [T_up('nonseekable', 5)],
        'up-single-path': [T_up('path', 3)],
        'up-single-nonseekable': [T_up('nonseekable', 3)],
        'dl-ranged-path': [T_dl('path', 'o5')],
        'dl-ranged-seekable': [T_dl('seekable', 'o5')],
        'dl-ranged-nonseekable': [T_dl('nonseekable', 'o5')],
        'dl-single-path': [T_dl('path', 'o3')],
        'dl-single-nonseekable': [T_dl('nonseekable', 'o3')],
        'copy-mp': [T_cp('o5')],
        'copy-single': [T_cp('o3')],
        'delete': [T_del('o3')],
    }


QUICK_CORE = ['up-mp-nonseekable', 'up-single-path', 'dl-ranged-path', 'dl-ranged-nonseekable',
              'dl-single-path', 'copy-mp', 'delete']


def inline(s):
    s = copy.deepcopy(s)
    s['mode'] = 'inline'
    return s


# ---------------------------------------------------------------------------
# per-property job lists
# ---------------------------------------------------------------------------

def jobs_C01(tier, seed):
    jobs = []
    want = 'C01'
    # (1) sequential sweep over (kind, size, threshold, chunk, max_parts)
    sizes = range(0, 10) if tier == 'quick' else range(0, 14)
    ts = (1, 2, 3, 4, 6) if tier == 'quick' else range(1, 7)
    cs = (1, 2, 3, 5) if tier == 'quick' else range(1, 6)
    kinds = [('path', 0, False), ('seekable', 0, False), ('seekable', 1, False), ('seekable', 3, False),
             ('nonseekable', 0, False), ('nonseekable', 0, True), ('duck', 2, False),
             # size supplied by a subscriber before submission (as the AWS CLI does): the
             # library then never measures the source itself
             ('seekable', 2, True), ('path', 0, True), ('duck', 1, True)]
    # (user streams whose read(n) returns less than n before EOF are outside the property's domain -
    #  the library reads each part with a single read(); tried in wave h and withdrawn, DESIGN 7.11)
    for (src, start, psize) in kinds:
        for mp in (3, 1000):
            scns = []
            for s_, t_, c_ in itertools.product(sizes, ts, cs):
                if mp == 3 and s_ < t_:
                    continue     # adjuster only matters for multipart
                tr = T_up(src.split('/')[0], s_, start=start)
                if '/' in src:
                    tr['short'] = int(src.split('/')[1])
                if psize:
                    tr['subs'] = [{'provide_size': True}]
                scns.append(inline(scn([tr], cfg(multipart_threshold=t_, multipart_chunksize=c_),
                                       adjuster={'min_size': 1, 'max_size': 1000, 'max_parts': mp}, seed=seed)))
            jobs.append({'name': f'sweep upload {src}@{start} psize={psize} max_parts={mp}', 'scns': scns,
                         'bound': 0, 'want': want})
    scns = []
    for s_, t_, c_ in itertools.product(sizes, ts, cs):
        for mp in (3, 1000):
            if mp == 3 and s_ < t_:
                continue
            sc = scn([T_cp(f'k{s_}')], cfg(multipart_threshold=t_, multipart_chunksize=c_),
                     adjuster={'min_size': 1, 'max_size': 1000, 'max_parts': mp}, seed=seed)
            sc['objects'] = {f'k{s_}': s_}
            scns.append(inline(sc))
    jobs.append({'name': 'sweep copy', 'scns': scns, 'bound': 0, 'want': want})
    # (1b) part checksums: with a ChecksumAlgorithm in force every listed part carries S3's checksum
    scns = []
    for algo in ('SHA256', 'CRC32C'):
        for rcc in ('when_required', 'when_supported'):
            for tr in (T_up('path', 5, extra={'ChecksumAlgorithm': algo}), T_up('nonseekable', 7, extra={'ChecksumAlgorithm': algo}),
                       T_up('seekable', 6, start=1, extra={'ChecksumAlgorithm': algo}), T_cp('o5', extra={'ChecksumAlgorithm': algo}),
                       T_cp('o7', extra={'ChecksumAlgorithm': algo})):
                scns.append(inline(scn([tr], seed=seed, rcc=rcc)))
    jobs.append({'name': 'part checksums', 'scns': scns, 'bound': 0, 'want': want})
    jobs.append({'name': 'histories of two transfers on one manager', 'scns': history_scns(('upload', 'copy', 'delete'), seed),
                 'bound': 0, 'want': want})
    # (2) body protocol: client-level retries cutting the body anywhere, short reads
    for rcc in ('when_required', 'when_supported', 'when_supported/http'):
        for src, size in (('path', 5), ('seekable', 5), ('nonseekable', 5), ('path', 3), ('nonseekable', 3)):
            for brs in (None, 1, 2):
                s = inline(scn([T_up(src, size, start=1 if src == 'seekable' else 0)], seed=seed, rcc=rcc.split('/')[0],
                               body_read_size=brs,
                               faults={'sites': ['body:retry'], 'max_body_retries': 2}))
                if rcc.endswith('/http'):
                    s['endpoint'] = 'http'
                jobs.append(job(f'body-retry {src} size={size} rcc={rcc} read={brs}', s,
                                1 if tier == 'quick' else 2, want))
    # (3) schedules
    for name in ('up-mp-path', 'up-mp-seekable', 'up-mp-nonseekable', 'copy-mp'):
        for conc, chunks in ((2, 1), (3, 2)):
            s = scn(base_transfers()[name], cfg(max_request_concurrency=conc, max_in_memory_upload_chunks=chunks),
                    seed=seed)
            jobs.append(job(f'sched {name} conc={conc} chunks={chunks}', s, BD(tier)['PLAIN2' if conc == 2 else 'PLAIN'], want, max_execs=400000))
    # several transfers requested back to back on one (threaded) manager, one or two submission threads
    for subc in (1, 2):
        for trs in ([T_cp('o5'), T_cp('o1')], [T_up('path', 3), T_up('seekable', 6, start=2)], [T_up('nonseekable', 5), T_cp('o4'), T_up('path', 5)]):
            s = scn(copy.deepcopy(trs), cfg(max_request_concurrency=2, max_submission_concurrency=subc), seed=seed)
            jobs.append(job(f'sched {len(trs)} transfers {[t["op"] for t in trs]} subconc={subc}', s, BD(tier)['PLAIN'], want, max_execs=400000))
    for name in ('up-mp-nonseekable', 'up-mp-path', 'copy-mp'):
        s = scn(base_transfers()[name], cfg(max_request_concurrency=2), seed=seed,
                faults={'sites': ['body:retry']})
        jobs.append(job(f'sched+retry {name}', s, BD(tier)['FAULT'], want, max_execs=400000))
    return jobs


def jobs_C02(tier, seed, want='C02', dsts=('path', 'seekable', 'nonseekable', 'special')):
    jobs = []
    sizes = range(0, 9) if tier == 'quick' else range(0, 13)
    ts = (1, 3, 4, 6) if tier == 'quick' else range(1, 7)
    cs = (1, 2, 3, 5) if tier == 'quick' else range(1, 6)
    ios = (1, 2, 3) if tier == 'quick' else (1, 2, 3, 5)
    for dst in dsts:
        for pat in ('full', 'short1', 'one', 'alt'):
            scns = []
            for s_, t_, c_, io in itertools.product(sizes, ts, cs, ios):
                if pat != 'full' and (io == 1 or s_ < 2):
                    continue
                sc = scn([T_dl(dst, f'k{s_}')], cfg(multipart_threshold=t_, multipart_chunksize=c_, io_chunksize=io),
                         seed=seed, stream_pattern=pat)
                sc['objects'] = {f'k{s_}': s_}
                scns.append(inline(sc))
            jobs.append({'name': f'sweep download {dst} pattern={pat}', 'scns': scns, 'bound': 0, 'want': want})
    jobs.append({'name': 'histories of two transfers on one manager', 'scns': history_scns(('download', 'upload'), seed),
                 'bound': 0, 'want': want})
    # stream faults: one / two retryable faults at every read, short reads chosen independently per attempt
    for dst in dsts:
        for key, c_, io in (('o5', 2, 2), ('o5', 3, 2), ('o3', 2, 2), ('o6', 3, 3), ('o7', 4, 3), ('o3', 4, 1)):
            for attempts in (2, 3):
                s = inline(scn([T_dl(dst, key)], cfg(multipart_chunksize=c_, io_chunksize=io,
                                                     num_download_attempts=attempts), seed=seed,
                               faults={'sites': ['stream:retryable', 'stream:short', 's3call:GetObject:retryable'], 'short_sizes': [1]}))
                jobs.append(job(f'stream-faults {dst} {key} c={c_} io={io} attempts={attempts}', s,
                                2 if tier == 'quick' else 3, want, max_execs=300000))
    # schedules: ranged parts complete in every order
    for dst in dsts:
        if dst == 'special':
            continue
        if dst == 'nonseekable':
            # a highly concurrent manager (20 request threads) with a small io chunk
            s = scn([T_dl(dst, 'o8')], cfg(max_request_concurrency=20, max_in_memory_download_chunks=4, io_chunksize=1,
                                          max_io_queue_size=4), seed=seed)
            jobs.append(job(f'sched dl {dst} conc=20', s, {'sched': 1}, want, max_execs=400000))
        for conc, win in ((2, 1), (2, 2), (3, 2)):
            s = scn([T_dl(dst, 'o5')], cfg(max_request_concurrency=conc, max_in_memory_download_chunks=win,
                                          max_io_queue_size=2), seed=seed)
            jobs.append(job(f'sched dl {dst} conc={conc} win={win}', s,
                            BD(tier)['PLAIN2' if conc == 2 and (tier == 'quick' or dst == 'nonseekable') else 'PLAIN'], want, max_execs=600000))
        s = scn([T_dl(dst, 'o5')], cfg(max_request_concurrency=2, max_in_memory_download_chunks=2), seed=seed,
                faults={'sites': ['stream:retryable']})
        jobs.append(job(f'sched+fault dl {dst}', s, BD(tier)['FAULT'], want, max_execs=400000))
    # a part that runs ahead of the lowest one, is interrupted and re-requested with different
    # chunk boundaries (io chunk smaller than the part): overlapping chunks wait in the deferred queue
    for dst in (('nonseekable',) if tier == 'quick' else ('nonseekable', 'special', 'seekable')):
        for key, c_, io in (('o8', 4, 2), ('o6', 3, 2)):
            s = scn([T_dl(dst, key)], cfg(multipart_chunksize=c_, io_chunksize=io, max_request_concurrency=2,
                                          max_in_memory_download_chunks=2, num_download_attempts=2 if tier == 'quick' else 3),
                    seed=seed, faults={'sites': ['stream:retryable', 'stream:short'], 'short_sizes': [1]})
            jobs.append(job(f'sched+fault+short dl {dst} {key} c={c_} io={io}', s,
                            {'sched': 1, 'env': 2 if tier == 'quick' or dst != 'nonseekable' else 3},
                            want, max_execs=600000))
    return jobs


FAULT_SITES_ALL = ['s3:', 's3call:GetObject:retryable', 'stream:retryable', 'stream:fatal', 'fs:open', 'fs:write', 'fs:close',
                   'fs:rename', 'fs:seek', 'fs:read', 'cb:queued', 'cb:progress', 'src:read', 'sink:write']


def jobs_faults(tier, seed, want, names=None, sched=True, pairs=True, monitor_fs=False, extra=None, deep_sites=()):
    """single fault at every site (seq + sched), pairs in small scenarios"""
    jobs = []
    bt = base_transfers()
    names = names or list(bt)
    for name in names:
        tr = copy.deepcopy(bt[name])
        s = inline(scn(tr, seed=seed, faults={'sites': FAULT_SITES_ALL, 'retryable_kinds': [0, 3]}))
        if extra:
            s.update(extra)
        jobs.append(job(f'seq fault x1 {name}', s, 1, want, monitor_fs=monitor_fs))
        if pairs:
            jobs.append(job(f'seq fault x2 {name}', s, 2, want, monitor_fs=monitor_fs, max_execs=200000))
        # size discovered vs provided
        if tr[0]['op'] in ('download', 'copy'):
            tr2 = copy.deepcopy(tr)
            tr2[0]['subs'] = [{'provide_size': True}]
            s2 = inline(scn(tr2, seed=seed, faults={'sites': FAULT_SITES_ALL}))
            jobs.append(job(f'seq fault x1 {name} size-provided', s2, 1, want, monitor_fs=monitor_fs))
    if sched:
        snames = [n for n in names if n in ('up-mp-nonseekable', 'up-mp-path', 'dl-ranged-path', 'up-mp-seekable',
                                            'dl-ranged-nonseekable', 'copy-mp', 'dl-ranged-seekable')]
        if 'up-mp-nonseekable' in names:
            # a stream whose size the caller supplied: nothing is read before the upload is created
            bt = dict(bt, **{'up-mp-nonseekable-psize': [T_up('nonseekable', 5, subs=[{'provide_size': True}])]})
            snames.append('up-mp-nonseekable-psize')
        for name in snames:
            s = scn(copy.deepcopy(bt[name]), cfg(max_request_concurrency=2), seed=seed,
                    faults={'sites': ['s3:', 'stream:retryable', 'stream:fatal', 'fs:write', 'fs:rename', 'fs:close', 'src:read', 'sink:write']})
            if extra:
                s.update(extra)
            jobs.append(job(f'sched fault {name}', s, BD(tier)['FAULT'], want,
                            monitor_fs=monitor_fs, max_execs=100000 if tier == 'quick' else 1000000))
        # one fault of ONE family x two preemptions (a failure arriving while another request of
        # the transfer is in flight needs the worker to be stopped inside that request and the
        # failing thread to be resumed): affordable because the fault menu is a single family
        for name in snames:
            for fam in deep_sites:
                s = scn(copy.deepcopy(bt[name]), cfg(max_request_concurrency=2), seed=seed, faults={'sites': [fam]})
                if extra:
                    s.update(extra)
                jobs.append(job(f'sched2 fault {fam} {name}', s, {'sched': 2, 'env': 1}, want, monitor_fs=monitor_fs,
                                max_execs=300000))
    return jobs


def jobs_C03(tier, seed):
    jobs = jobs_faults(tier, seed, 'C03', deep_sites=('src:read', 'fs:write'))
    # non-retryable failures that happen to be OSErrors (EIO from the stream, a subscriber raising
    # PermissionError): the retryable family is the connection errors, not every OSError
    bt = base_transfers()
    for name in ('dl-single-path', 'dl-ranged-path', 'dl-ranged-nonseekable', 'dl-single-nonseekable', 'up-mp-path', 'copy-mp'):
        s = inline(scn(copy.deepcopy(bt[name]), cfg(num_download_attempts=3), seed=seed,
                       faults={'sites': ['stream:fatal', 'cb:progress', 'cb:queued'], 'fatal_kinds': ['read', 'oserror']}))
        jobs.append(job(f'seq OSError-kind faults {name}', s, 1 if tier == 'quick' else 2, 'C03'))
    return jobs


def limit_settings():
    keys = ['max_request_concurrency', 'max_submission_concurrency', 'max_request_queue_size',
            'max_submission_queue_size', 'max_io_queue_size', 'max_in_memory_upload_chunks',
            'max_in_memory_download_chunks']
    for vals in itertools.product((1, 2), repeat=len(keys)):
        yield dict(zip(keys, vals))


def jobs_C04(tier, seed):
    want = 'C04'
    jobs = []
    bt = base_transfers()
    core = ['up-mp-nonseekable', 'up-single-path', 'dl-ranged-path', 'dl-ranged-nonseekable',
            'dl-single-nonseekable', 'copy-mp', 'delete']
    # (i) all 2^7 settings of the limits at bound 0 (all non-preemptive schedules: forced switches free)
    names_i = ['up-mp-nonseekable', 'dl-ranged-nonseekable', 'dl-ranged-path'] if tier == 'quick' else core[:5]
    for name in names_i:
        for lim in limit_settings():
            s = scn(copy.deepcopy(bt[name]), cfg(**lim), seed=seed)
            jobs.append(job(f'limits {name} {tuple(lim.values())}', s, 0, want, forced_cost=0,
                            max_execs=3000 if tier == 'quick' else 10000))
    # pairs of transfers on the all-ones manager
    ones = {k: 1 for k in next(limit_settings())}
    for a, b in (('up-mp-nonseekable', 'dl-ranged-nonseekable'), ('dl-ranged-path', 'copy-mp'),
                 ('up-single-path', 'delete')):
        s = scn(copy.deepcopy(bt[a]) + copy.deepcopy(bt[b]), cfg(**ones), seed=seed)
        jobs.append(job(f'pair {a}+{b} all-ones', s, BD(tier)['PLAIN'], want, max_execs=100000))
    # three transfers sharing a manager with a 1-slot request queue; one fails while shutdown() waits
    for subc in (1, 3):
        trs = [T_del('o3'), T_del('o4'), T_del('o5')]
        s = scn(trs, cfg(max_request_queue_size=1, max_request_concurrency=1, max_submission_concurrency=subc),
                seed=seed, script='shutdown', faults={'sites': ['s3:'], 'only_key': 0})
        jobs.append(job(f'three deletes, first fails, shutdown, subconc={subc}', s, BD(tier)['FAULT'], want, max_execs=300000))
    # (ii) all-ones and all-twos at k<=1 (quick) / 2 (thorough)
    for name in core:
        for lim in (ones, {k: 2 for k in ones}):
            s = scn(copy.deepcopy(bt[name]), cfg(**lim), seed=seed)
            jobs.append(job(f'k {name} {"ones" if lim is ones else "twos"}', s,
                            BD(tier)['PLAIN2'], want, max_execs=300000))
    # (iii) single fault x k<=1
    for name in ('up-mp-nonseekable', 'dl-ranged-nonseekable', 'dl-ranged-path', 'copy-mp'):
        s = scn(copy.deepcopy(bt[name]), cfg(**ones), seed=seed,
                faults={'sites': ['s3:', 'stream:retryable', 'stream:fatal', 'fs:write', 'fs:rename', 'src:read', 'sink:write']})
        jobs.append(job(f'fault {name} ones', s, BD(tier)['FAULT'], want, max_execs=300000))
    for name in bt:
        tr = copy.deepcopy(bt[name])
        s = inline(scn(tr, cfg(**ones), seed=seed, faults={'sites': FAULT_SITES_ALL}))
        jobs.append(job(f'seq fault {name}', s, 1 if tier == 'quick' else 2, want))
    # (iv) cancel / shutdown(cancel) at every point
    for name in core:
        for inj in ([{'kind': 'cancel', 'target': 0}], [{'kind': 'shutdown_cancel', 'msg': 'bye'}]):
            s = scn(copy.deepcopy(bt[name]), cfg(**ones), seed=seed, inject=inj)
            jobs.append(job(f'{inj[0]["kind"]} {name}', s, BD(tier)['CANCEL'], want, max_execs=300000))
    # Ctrl-C while the user waits in result() / shutdown() / the with-exit
    for name in ('dl-ranged-path', 'dl-ranged-nonseekable', 'up-mp-nonseekable', 'copy-mp'):
        for script in ('wait', 'shutdown', 'with_clean'):
            s = scn(copy.deepcopy(bt[name]), seed=seed, inject=[{'kind': 'ctrlc'}], script=script)
            jobs.append(job(f'ctrlc {script} {name}', s, BD(tier)['CANCEL'], want, max_execs=300000))
    # (v) re-entrant subscribers on every outcome path
    acts_done = ['done', 'meta', 'set_exception', 'cancel', 'result']
    acts_q = ['done', 'meta', 'cancel']
    for name in ('up-single-path', 'dl-ranged-path', 'up-mp-nonseekable'):
        for phase, acts in (('done', acts_done), ('queued', acts_q), ('progress', acts_q)):
            for act in acts:
                for path in ('success', 'fault', 'cancel'):
                    tr = copy.deepcopy(bt[name])
                    tr[0]['subs'] = [{'reenter': {phase: [act]}}]
                    kw = {}
                    if path == 'fault':
                        kw['faults'] = {'sites': ['s3:']}
                    if path == 'cancel':
                        kw['inject'] = [{'kind': 'cancel', 'target': 0}]
                    s = scn(tr, cfg(**ones), seed=seed, **kw)
                    b = {'success': {'sched': 1}, 'fault': {'sched': 1, 'env': 1}, 'cancel': {'inject': 1, 'sched': 1}}[path]
                    jobs.append(job(f'reenter {name} {phase}:{act} {path}', s, b, want, max_execs=100000))
    return jobs


def jobs_C05(tier, seed):
    want = 'C05'
    names = ['up-mp-path', 'up-mp-seekable', 'up-mp-nonseekable', 'copy-mp']
    jobs = jobs_faults(tier, seed, want, names=names,
                       deep_sites=('src:read', 's3:CreateMultipartUpload', 's3:UploadPart', 's3:CompleteMultipartUpload'))
    bt = base_transfers()
    for name in names:
        for conc in (2, 3):
            s = scn(copy.deepcopy(bt[name]), cfg(max_request_concurrency=conc), seed=seed,
                    inject=[{'kind': 'cancel', 'target': 0}])
            jobs.append(job(f'cancel {name} conc={conc}', s, BD(tier)['CANCEL'], want, max_execs=400000))
        s = scn(copy.deepcopy(bt[name]), cfg(max_request_concurrency=2), seed=seed,
                inject=[{'kind': 'cancel', 'target': 0}], faults={'sites': ['s3:']})
        jobs.append(job(f'cancel+fault {name}', s, BD(tier)['CANCELFAULT'], want, max_execs=600000))
    return jobs


def jobs_C06(tier, seed):
    want = 'C06'
    names = ['dl-ranged-path', 'dl-single-path']
    jobs = []
    bt = base_transfers()
    for pre in (None, 'OLD-CONTENT'):
        extra_t = {'preexisting': pre} if pre else {}
        for name in names:
            tr = copy.deepcopy(bt[name])
            tr[0].update(extra_t)
            s = inline(scn(tr, seed=seed, faults={'sites': FAULT_SITES_ALL}))
            jobs.append(job(f'seq fault x1 {name} pre={pre}', s, 1, want, monitor_fs=True))
            jobs.append(job(f'seq fault x2 {name} pre={pre}', s, 2, want, monitor_fs=True, max_execs=100000))
            s = scn(copy.deepcopy(tr), cfg(max_request_concurrency=2), seed=seed,
                    faults={'sites': ['s3:', 'stream:retryable', 'stream:fatal', 'fs:']})
            jobs.append(job(f'sched fault {name} pre={pre}', s, BD(tier)['FAULT'], want, monitor_fs=True,
                            max_execs=400000))
            for inj in ([{'kind': 'cancel', 'target': 0}], [{'kind': 'shutdown_cancel', 'msg': 'x'}]):
                s = scn(copy.deepcopy(tr), cfg(max_request_concurrency=2), seed=seed, inject=inj)
                jobs.append(job(f'{inj[0]["kind"]} {name} pre={pre}', s, BD(tier)['CANCEL'], want,
                                monitor_fs=True, max_execs=400000))
    # two file downloads on one manager, all cancelled / one failing while shutdown() waits
    trs = [T_dl('path', 'o5'), T_dl('path', 'o6', preexisting='OLD')]
    s = scn(copy.deepcopy(trs), cfg(max_request_concurrency=2, max_submission_concurrency=2), seed=seed,
            inject=[{'kind': 'shutdown_cancel', 'msg': 'x'}])
    jobs.append(job('shutdown_cancel two downloads', s, BD(tier)['CANCEL'], want, monitor_fs=True, max_execs=400000))
    s = scn(copy.deepcopy(trs), cfg(max_request_concurrency=2, max_submission_concurrency=2), seed=seed, script='shutdown',
            victims=[0], faults={'sites': ['s3:', 'stream:fatal', 'fs:write'], 'only_key': 0})
    jobs.append(job('one of two downloads fails during shutdown', s, BD(tier)['FAULT'], want, monitor_fs=True, max_execs=400000))
    # destination base names at and around the file system's 255-character limit (the temporary
    # name must stay different from the destination and within the limit); same for the other front-ends
    for nl in (255, 254, 248, 247):
        for name in names:
            for pre in (None, 'OLD-CONTENT'):
                tr = copy.deepcopy(bt[name])
                tr[0]['name_len'] = nl
                if pre:
                    tr[0]['preexisting'] = pre
                s = inline(scn(tr, seed=seed, faults={'sites': FAULT_SITES_ALL}))
                jobs.append(job(f'seq fault x1 {name} name_len={nl} pre={pre}', s, 1, want, monitor_fs=True))
    return jobs


def jobs_C07(tier, seed):
    want = 'C07'
    jobs = []
    bt = base_transfers()
    core = ['up-mp-nonseekable', 'up-single-path', 'dl-ranged-path', 'dl-ranged-nonseekable',
            'dl-single-path', 'copy-mp', 'copy-single', 'delete']
    deep = ['up-mp-nonseekable', 'dl-ranged-path', 'copy-mp', 'up-single-path'] if tier == 'quick' else core
    for name in core:
        base = dict(fields=True, field_reads=False)
        k = BD(tier)['CANCEL'] if name in deep else {'inject': 1, 'sched': 0}
        for inj in ([{'kind': 'cancel', 'target': 0}],
                    [{'kind': 'shutdown_cancel', 'msg': 'bye'}],
                    [{'kind': 'ctrlc'}]):
            s = scn(copy.deepcopy(bt[name]), seed=seed, inject=inj, **base)
            jobs.append(job(f'{inj[0]["kind"]} {name}', s, k, want, max_execs=500000))
        s = scn(copy.deepcopy(bt[name]), seed=seed, inject=[{'kind': 'ctrlc'}], script='shutdown', **base)
        jobs.append(job(f'ctrlc-at-shutdown {name}', s, k, want, max_execs=500000))
        s = scn(copy.deepcopy(bt[name]), seed=seed, inject=[{'kind': 'ctrlc'}], script='with_clean', **base)
        jobs.append(job(f'ctrlc-at-with-exit {name}', s, k, want, max_execs=500000))
        for script in ('with_raise_kbd', 'with_raise_value', 'with_raise_empty'):
            s = scn(copy.deepcopy(bt[name]), seed=seed, script=script, **base)
            jobs.append(job(f'{script} {name}', s, BD(tier)['PLAIN'] if name in deep else {'sched': 0}, want,
                            forced_cost=1 if name in deep else 0, max_execs=50000 if tier == 'quick' else 500000))
    # two transfers, one cancelled
    s = scn(copy.deepcopy(bt['up-mp-nonseekable']) + copy.deepcopy(bt['dl-ranged-path']), seed=seed,
            inject=[{'kind': 'shutdown_cancel', 'msg': 'stop'}], fields=True, field_reads=False)
    jobs.append(job('shutdown_cancel two transfers', s, {'inject': 1, 'sched': 0} if tier == 'quick' else BD(tier)['CANCEL'],
                    want, max_execs=300000))
    return jobs


def jobs_C08(tier, seed):
    want = 'C08'
    jobs = []
    bt = base_transfers()
    core = list(bt)
    two = [{'raise_done': True}, {}]
    k = BD(tier)['FAULT']
    for name in core:
        tr = copy.deepcopy(bt[name])
        tr[0]['subs'] = copy.deepcopy(two)
        s = scn(tr, seed=seed, fields=True, field_reads=False)
        jobs.append(job(f'plain {name}', s, BD(tier)['PLAIN'], want, max_execs=300000))
        s = scn(copy.deepcopy(tr), seed=seed, inject=[{'kind': 'cancel', 'target': 0}], fields=True, field_reads=False)
        jobs.append(job(f'cancel {name}', s, BD(tier)['CANCEL'], want, max_execs=500000))
        s = inline(scn(copy.deepcopy(tr), seed=seed, faults={'sites': FAULT_SITES_ALL}))
        jobs.append(job(f'seq fault {name}', s, 1, want))
        if tr[0]['op'] in ('download', 'copy'):
            tr2 = copy.deepcopy(tr)
            tr2[0]['subs'] = [{'provide_size': True}, {}]
            jobs.append(job(f'size-provided {name}', scn(tr2, seed=seed), 0, want, forced_cost=0, max_execs=2000))
    # a supplied size of 0 is a supplied size too
    for tr in ([T_dl('path', 'e0')], [T_dl('nonseekable', 'e0')], [T_cp('e0')]):
        tr[0]['subs'] = [{'provide_size': True}, {}]
        sc = scn(tr, seed=seed)
        sc['objects'] = dict(OBJ, e0=0)
        jobs.append(job(f'size-provided empty object {tr[0]["op"]} {tr[0].get("dst", "")}', sc, 0, want, forced_cost=0, max_execs=2000))
    for name in ('up-mp-nonseekable', 'dl-ranged-path', 'copy-mp'):
        tr = copy.deepcopy(bt[name])
        tr[0]['subs'] = copy.deepcopy(two)
        s = scn(tr, cfg(max_request_concurrency=2), seed=seed, faults={'sites': ['s3:', 'stream:fatal', 'fs:write']})
        jobs.append(job(f'sched fault {name}', s, k, want, max_execs=500000))
    # the submission itself fails (the user's stream breaks) while an earlier part is stopped in flight
    for name in ('up-mp-nonseekable', 'up-mp-seekable'):
        tr = copy.deepcopy(bt[name])
        tr[0]['subs'] = copy.deepcopy(two)
        s = scn(tr, cfg(max_request_concurrency=2), seed=seed, faults={'sites': ['src:read']})
        jobs.append(job(f'sched2 fault src:read {name}', s, {'sched': 2, 'env': 1}, want, max_execs=300000))
    return jobs


def jobs_C09(tier, seed):
    want = 'C09'
    jobs = []
    # uploads x rewinds (both protocols), downloads x stream faults, copies; all sizes small
    for rcc in ('when_required', 'when_supported', 'when_supported/http'):
        for src, size in (('path', 5), ('seekable', 5), ('nonseekable', 5), ('path', 3), ('nonseekable', 3), ('seekable', 3)):
            for brs in (None, 1, 2):
                for thr in (None, 2):
                    s = inline(scn([T_up(src.split('/')[0], size, start=1 if src.startswith('seekable') else 0,
                                         **({'short': int(src.split('/')[1])} if '/' in src else {}))], seed=seed, rcc=rcc.split('/')[0],
                                   body_read_size=brs, faults={'sites': ['body:retry'], 'max_body_retries': 2},
                                   progress_threshold=thr))
                    if rcc.endswith('/http'):
                        s['endpoint'] = 'http'
                    jobs.append(job(f'upload rewinds {src} {size} {rcc} read={brs} thr={thr}', s,
                                    2 if tier == 'quick' else 3, want, max_execs=200000))
    for dst in ('path', 'seekable', 'nonseekable'):
        for key in ('o5', 'o3', 'o7'):
            s = inline(scn([T_dl(dst, key)], cfg(num_download_attempts=3, multipart_chunksize=3), seed=seed,
                           faults={'sites': ['stream:retryable', 'stream:short', 's3call:GetObject:retryable']}))
            jobs.append(job(f'download retries {dst} {key}', s, 2 if tier == 'quick' else 3, want, max_execs=200000))
    sizes = range(0, 9)
    scns = []
    for s_, t_, c_ in itertools.product(sizes, (1, 3, 4), (1, 2, 3)):
        for op in ('copy', 'upload', 'download'):
            if op == 'copy':
                sc = scn([T_cp(f'k{s_}')], cfg(multipart_threshold=t_, multipart_chunksize=c_), seed=seed)
            elif op == 'upload':
                sc = scn([T_up('path', s_)], cfg(multipart_threshold=t_, multipart_chunksize=c_), seed=seed)
            else:
                sc = scn([T_dl('path', f'k{s_}')], cfg(multipart_threshold=t_, multipart_chunksize=c_), seed=seed)
            sc['objects'] = {f'k{s_}': s_}
            scns.append(inline(sc))
    jobs.append({'name': 'sweep sizes', 'scns': scns, 'bound': 0, 'want': want})
    jobs.append({'name': 'histories of two transfers on one manager', 'scns': history_scns(('upload', 'download', 'copy'), seed),
                 'bound': 0, 'want': want})
    for name in ('up-mp-nonseekable', 'dl-ranged-path', 'copy-mp'):
        s = scn(copy.deepcopy(base_transfers()[name]), cfg(max_request_concurrency=2), seed=seed,
                faults={'sites': ['body:retry', 'stream:retryable']})
        jobs.append(job(f'sched {name}', s, BD(tier)['FAULT'], want, max_execs=400000))
    # parts of one transfer reporting progress concurrently: every point (also the body reads and
    # the subscriber call itself) is a preemption point, aggregation threshold scaled to 2 bytes
    for name in ('up-mp-path', 'up-mp-seekable', 'up-mp-nonseekable', 'dl-ranged-path', 'copy-mp'):
        for thr in (2, 3):
            s = scn(copy.deepcopy(base_transfers()[name]), cfg(max_request_concurrency=2), seed=seed,
                    progress_threshold=thr, granularity='fine')
            jobs.append(job(f'sched fine {name} thr={thr}', s, BD(tier)['PLAIN'], want, max_execs=400000))
    return jobs


def mixed_transfers(n=3):
    return [T_up('nonseekable', 5), T_dl('nonseekable', 'o5'), T_dl('path', 'o6'), T_cp('o4')][:n]


def jobs_C10(tier, seed):
    want = 'C10'
    jobs = []
    # assignments in which exchangeable limits differ
    A = [
        dict(max_request_concurrency=1, max_submission_concurrency=2, max_request_queue_size=2, max_submission_queue_size=3, max_io_queue_size=1, max_in_memory_upload_chunks=1, max_in_memory_download_chunks=3),
        dict(max_request_concurrency=2, max_submission_concurrency=1, max_request_queue_size=3, max_submission_queue_size=1, max_io_queue_size=2, max_in_memory_upload_chunks=2, max_in_memory_download_chunks=1),
        dict(max_request_concurrency=3, max_submission_concurrency=2, max_request_queue_size=1, max_submission_queue_size=2, max_io_queue_size=3, max_in_memory_upload_chunks=3, max_in_memory_download_chunks=2),
        dict(max_request_concurrency=2, max_submission_concurrency=3, max_request_queue_size=1, max_submission_queue_size=3, max_io_queue_size=2, max_in_memory_upload_chunks=3, max_in_memory_download_chunks=1),
        dict(max_request_concurrency=1, max_submission_concurrency=3, max_request_queue_size=3, max_submission_queue_size=2, max_io_queue_size=1, max_in_memory_upload_chunks=2, max_in_memory_download_chunks=3),
        dict(max_request_concurrency=3, max_submission_concurrency=1, max_request_queue_size=2, max_submission_queue_size=1, max_io_queue_size=3, max_in_memory_upload_chunks=1, max_in_memory_download_chunks=2),
    ]
    if tier == 'quick':
        A = A[:4]
    for i, a in enumerate(A):
        for n, trs in ((3, mixed_transfers(3)), (3, [T_dl('nonseekable', 'o5'), T_dl('nonseekable', 'o6'), T_dl('path', 'o4')]),
                       (2, [T_up('nonseekable', 6), T_up('seekable', 5)]),
                       # the single-request kinds: deletes, small copies and uploads, a small download
                       (4, [T_del('o3'), T_del('o4'), T_cp('o3'), T_up('path', 3)]),
                       (3, [T_del('o5'), T_dl('path', 'o3'), T_cp('o5')])):
            s = scn(copy.deepcopy(trs), cfg(**a), seed=seed)
            jobs.append(job(f'assign{i} mix{n}:{[t["op"] for t in trs]}', s, BD(tier)['PLAIN'], want,
                            max_execs=30000 if tier == 'quick' else 500000))
    # "a submitter blocks, rather than fails": also for a transfer that was just cancelled / failed while
    # the stage it submits to is full
    for trs in ([T_dl('path', 'o8')], [T_dl('nonseekable', 'o8')], [T_up('nonseekable', 7)]):
        c = cfg(max_request_concurrency=2, max_io_queue_size=1, max_request_queue_size=1, max_in_memory_upload_chunks=1)
        s = scn(copy.deepcopy(trs), dict(c), seed=seed, inject=[{'kind': 'cancel', 'target': 0}])
        jobs.append(job(f'cancel with one-slot stages {trs[0]["op"]} {trs[0].get("dst", trs[0].get("src"))}', s, BD(tier)['CANCEL'], want, max_execs=300000))
        s = scn(copy.deepcopy(trs), dict(c), seed=seed, faults={'sites': ['s3:GetObject', 's3:UploadPart', 'stream:fatal']})
        jobs.append(job(f'fault with one-slot stages {trs[0]["op"]} {trs[0].get("dst", trs[0].get("src"))}', s, BD(tier)['FAULT'], want, max_execs=300000))
    return jobs


def jobs_C11(tier, seed):
    want = 'C11'
    jobs = []
    k = BD(tier)['PLAIN']
    for chunks in (1, 2):
        for subc in (1, 2):
            for trs in ([T_up('nonseekable', 7)], [T_up('seekable', 7)], [T_up('nonseekable', 6), T_up('nonseekable', 5)]):
                s = scn(copy.deepcopy(trs), cfg(max_in_memory_upload_chunks=chunks, max_submission_concurrency=subc,
                                                max_request_concurrency=2), seed=seed)
                jobs.append(job(f'up chunks={chunks} subc={subc} n={len(trs)} {trs[0]["src"]}', s, k, want,
                                max_execs=40000 if tier == 'quick' else 600000))
    # many parts against the smallest limits: reading ahead of the requests shows as extra buffers
    for src in ('seekable', 'nonseekable'):
        s = scn([T_up(src, 11)], cfg(max_in_memory_upload_chunks=1, max_submission_concurrency=1,
                                     max_request_concurrency=2, multipart_threshold=2), seed=seed)
        jobs.append(job(f'up six parts chunks=1 subc=1 {src}', s, k, want, max_execs=40000 if tier == 'quick' else 600000))
    s = scn([T_up('seekable', 7), T_up('seekable', 6)], cfg(max_in_memory_upload_chunks=1, max_submission_concurrency=2,
                                                          max_request_concurrency=2, multipart_threshold=2), seed=seed)
    jobs.append(job('up two seekable streams chunks=1 subc=2', s, k, want, max_execs=40000 if tier == 'quick' else 600000))
    # buffers that exist, also after the upload failed or was cancelled: liveness of the chunks handed
    # to the library is observed directly (reference counts) at every later read of the stream
    for src in ('nonseekable', 'seekable'):
        base = dict(seed=seed, track_buffers=True)
        C1 = cfg(max_in_memory_upload_chunks=1, max_submission_concurrency=1, max_request_concurrency=1, multipart_threshold=2)
        s = scn([T_up(src, 13)], dict(C1), **base)
        jobs.append(job(f'alive plain {src}', s, {'sched': 0}, want, max_execs=2000))
        s = scn([T_up(src, 13)], dict(C1), faults={'sites': ['s3:UploadPart', 's3:CreateMultipartUpload']}, **base)
        jobs.append(job(f'alive fault {src}', s, {'sched': 0, 'env': 1}, want, max_execs=5000))
        s = scn([T_up(src, 13)], dict(C1), inject=[{'kind': 'cancel', 'target': 0}], **base)
        jobs.append(job(f'alive cancel {src}', s, {'inject': 1, 'sched': 0}, want, max_execs=5000))
    for chunks in (1, 2):
        trs = [T_up('nonseekable', 3) for _ in range(4)]
        s = scn(trs, cfg(max_in_memory_upload_chunks=chunks, max_submission_concurrency=1, max_request_concurrency=1,
                         max_request_queue_size=4), seed=seed)
        jobs.append(job(f'up single-request streams x4 chunks={chunks}', s, k, want, max_execs=100000))
    # "chunks of io_chunksize" whatever sizes the network reads return
    for pat in ('one', 'alt', 'short1'):
        for dst in ('nonseekable', 'seekable', 'path'):
            for io in (2, 3):
                s = scn([T_dl(dst, 'o8')], cfg(io_chunksize=io, multipart_chunksize=4, max_io_queue_size=1, max_request_concurrency=1),
                        seed=seed, stream_pattern=pat)
                jobs.append(job(f'dl short reads {pat} {dst} io={io}', s, {'sched': 0}, want, max_execs=2000))
    for win in (1, 2, 3):
        for ioq in (1, 2):
            for trs in ([T_dl('nonseekable', 'o8')], [T_dl('nonseekable', 'o8'), T_dl('nonseekable', 'o7')]):
                s = scn(copy.deepcopy(trs), cfg(max_in_memory_download_chunks=win, max_io_queue_size=ioq,
                                                max_request_concurrency=3, max_submission_concurrency=2), seed=seed)
                jobs.append(job(f'dl win={win} ioq={ioq} n={len(trs)}', s, k, want,
                                max_execs=40000 if tier == 'quick' else 600000))
    return jobs


def jobs_C12(tier, seed):
    want = 'C12'
    jobs = []
    bt = base_transfers()
    for name in ('up-mp-nonseekable', 'dl-ranged-nonseekable', 'dl-single-nonseekable', 'up-mp-seekable'):
        s = scn(copy.deepcopy(bt[name]), cfg(max_request_concurrency=2), seed=seed)
        jobs.append(job(f'e2e {name}', s, BD(tier)['PLAIN'], want, max_execs=100000))
        # the acquire/release pairing lives in done-callbacks of executor futures: every point,
        # including done()/add_done_callback of those futures, is a preemption point here
        s = scn(copy.deepcopy(bt[name]), cfg(max_request_concurrency=2), seed=seed, granularity='fine')
        jobs.append(job(f'e2e fine {name}', s, {'sched': 1}, want, max_execs=200000))
        s = scn(copy.deepcopy(bt[name]), cfg(max_request_concurrency=2), seed=seed,
                faults={'sites': ['s3:', 'stream:fatal', 'stream:retryable', 'src:read', 'sink:write']})
        jobs.append(job(f'e2e fault {name}', s, BD(tier)['FAULT'], want, max_execs=100000))
        s = scn(copy.deepcopy(bt[name]), cfg(max_request_concurrency=2), seed=seed,
                inject=[{'kind': 'cancel', 'target': 0}])
        jobs.append(job(f'e2e cancel {name}', s, BD(tier)['CANCEL'], want, max_execs=100000))
    s = scn([T_dl('nonseekable', 'o5'), T_dl('nonseekable', 'o6')],
            cfg(max_request_concurrency=2, max_submission_concurrency=2, max_in_memory_download_chunks=1), seed=seed)
    jobs.append(job('e2e two nonseekable downloads window=1', s, BD(tier)['PLAIN'], want, max_execs=400000))
    # use_threads=False: the permits are taken and returned around tasks that already ran
    for name in ('up-mp-nonseekable', 'dl-ranged-nonseekable', 'dl-single-nonseekable', 'up-mp-seekable', 'copy-mp', 'delete'):
        s = inline(scn(copy.deepcopy(bt[name]), seed=seed, faults={'sites': ['s3:', 'stream:fatal']}))
        jobs.append(job(f'e2e serial executor {name}', s, 1, want))
    # "after ANY set of transfers has finished": one of two transfers fails while shutdown() waits,
    # the other still has requests and writes to go
    for trs in ([T_up('nonseekable', 5), T_dl('path', 'o5')], [T_dl('nonseekable', 'o5'), T_dl('path', 'o6')]):
        s = scn(copy.deepcopy(trs), cfg(max_request_concurrency=2, max_submission_concurrency=2), seed=seed, script='shutdown',
                victims=[0], faults={'sites': ['s3:', 'stream:fatal', 'src:read'], 'only_key': 0})
        jobs.append(job(f'e2e one of two fails during shutdown {[t["op"] for t in trs]}', s, BD(tier)['FAULT'], want, max_execs=400000))
    return jobs


def jobs_C13(tier, seed):
    want = 'C13'
    jobs = []
    C = cfg(multipart_threshold=100, multipart_chunksize=20, io_chunksize=2, max_bandwidth=4,
            max_request_concurrency=2, max_submission_concurrency=2)
    C2 = dict(C, multipart_threshold=20)
    ob = {'b40': 40}
    for name, trs, c in (('upload+download single', [T_up('path', 40), T_dl('path', 'b40')], C),
                         ('upload stream + ranged download', [T_up('nonseekable', 40), T_dl('nonseekable', 'b40')], C2)):
        s = scn(copy.deepcopy(trs), dict(c), seed=seed, bw_threshold=2, body_read_size=2, horizon=100000)
        s['objects'] = dict(ob)
        jobs.append(job(f'wiring {name}', s, {'sched': 0} if tier == 'quick' else {'sched': 1}, want,
                        forced_cost=1, max_execs=20000))
    # every body protocol of the client (checksum pass inside / before request creation, none)
    for rcc, ep in (('when_required', None), ('when_supported', None), ('when_supported', 'http')):
        for trs, c in (([T_up('path', 40)], C), ([T_up('nonseekable', 40)], C2), ([T_up('seekable', 40)], C2)):
            s = scn(copy.deepcopy(trs), dict(c), seed=seed, bw_threshold=2, body_read_size=2, horizon=100000, rcc=rcc)
            if ep:
                s['endpoint'] = ep
            jobs.append(job(f'wiring upload {trs[0]["src"]} {rcc} {ep or "https"}', s, {'sched': 0}, want, forced_cost=1, max_execs=20000))
            # the same with a socket that takes 2 bytes per second: half the limit of 4 B/s
            s = dict(copy.deepcopy(s), send_think=1.0)
            s['config'] = dict(s['config'], max_request_concurrency=1)
            jobs.append(job(f'wiring slow socket {trs[0]["src"]} {rcc} {ep or "https"}', s, {'sched': 0}, want, forced_cost=1, max_execs=20000))
    # cancel / failure while reads are being throttled
    for name, trs, c in (('upload', [T_up('path', 40)], C), ('ranged download', [T_dl('path', 'b40')], C2)):
        s = scn(copy.deepcopy(trs), dict(c), seed=seed, bw_threshold=2, body_read_size=2, horizon=100000,
                inject=[{'kind': 'cancel', 'target': 0}], fields=True, field_reads=False)
        s['objects'] = dict(ob)
        jobs.append(job(f'wiring cancel {name}', s, {'inject': 1, 'sched': 0} if tier == 'quick' else {'inject': 1, 'sched': 1},
                        want, forced_cost=1, max_execs=50000))
    # a request body smaller than the limiter's read threshold that the client re-sends (rewind +
    # re-read) several times: every attempt moves bytes, every attempt must be charged
    C3 = dict(C, max_request_concurrency=1, max_submission_concurrency=1)
    for src in ('path', 'seekable'):
        s = scn([T_up(src, 40)], dict(C3), seed=seed, bw_threshold=50, body_read_size=20, horizon=100000,
                faults={'sites': ['body:retry'], 'max_body_retries': 3})
        jobs.append(job(f'wiring re-sent small body {src}', s, {'sched': 0, 'env': 3}, want, forced_cost=1, max_execs=50000))
    return jobs


def jobs_C16(tier, seed):
    # non-seekable destinations under C02's fault sequences
    return jobs_C02(tier, seed, want='C16', dsts=('nonseekable', 'special'))


def jobs_C17(tier, seed):
    """end-to-end part of C17: status timeline and first-error-wins through the real tasks"""
    want = 'C17'
    jobs = []
    bt = base_transfers()
    names = ['up-single-path', 'up-mp-nonseekable', 'dl-ranged-path', 'dl-single-path', 'copy-mp', 'copy-single', 'delete']
    for name in names:
        base = dict(fields=True, field_reads=False)
        # a cancel landing anywhere, also while the final request is in flight, combined with that
        # (or any other) request failing afterwards
        s = scn(copy.deepcopy(bt[name]), seed=seed, inject=[{'kind': 'cancel', 'target': 0}],
                faults={'sites': ['s3:', 'stream:fatal', 'fs:write', 'fs:rename']}, **base)
        jobs.append(job(f'cancel+fault {name}', s, BD(tier)['CANCELFAULT'], want, max_execs=400000))
        s = scn(copy.deepcopy(bt[name]), seed=seed, inject=[{'kind': 'cancel', 'target': 0}], **base)
        jobs.append(job(f'cancel {name}', s, BD(tier)['CANCEL'] if name in names[:3] else {'inject': 1, 'sched': 0}, want, max_execs=400000))
        # two failures: the first recorded wins
        s = scn(copy.deepcopy(bt[name]), cfg(max_request_concurrency=2), seed=seed,
                faults={'sites': ['s3:', 'stream:fatal', 'fs:write']}, **base)
        jobs.append(job(f'two faults {name}', s, BD(tier)['FAULT2'], want, max_execs=400000))
    # two failures of one transfer, sequentially (use_threads=False) and with every source of failure,
    # the user's stream included: the first one recorded is reported
    for name in ('up-mp-nonseekable', 'up-mp-seekable', 'up-mp-path', 'dl-ranged-path', 'dl-ranged-nonseekable', 'copy-mp'):
        s = inline(scn(copy.deepcopy(bt[name]), cfg(max_in_memory_upload_chunks=1), seed=seed,
                       faults={'sites': ['s3:', 'stream:fatal', 'fs:write', 'src:read', 'sink:write', 'cb:progress']},
                       fields=True, field_reads=False))
        jobs.append(job(f'seq two faults {name}', s, 2, want, max_execs=400000))
    s = scn(copy.deepcopy(bt['up-mp-nonseekable']), cfg(max_in_memory_upload_chunks=1, max_request_concurrency=1), seed=seed,
            faults={'sites': ['s3:UploadPart', 'src:read']}, fields=True, field_reads=False)
    jobs.append(job('part fails, then the source fails (threaded)', s, {'sched': 1, 'env': 2}, want, max_execs=400000))
    # a transfer that already recorded a failure (siblings still in flight) when the with-block is
    # left through an exception / Ctrl-C / shutdown(cancel): the later cancellation must not replace it
    for name in ('up-mp-nonseekable', 'dl-ranged-path', 'copy-mp'):
        for script in ('with_raise_value', 'with_raise_kbd'):
            s = scn(copy.deepcopy(bt[name]), cfg(max_request_concurrency=2), seed=seed, script=script,
                    faults={'sites': ['s3:', 'stream:fatal']}, fields=True, field_reads=False)
            jobs.append(job(f'fault then {script} {name}', s, BD(tier)['FAULT'], want, max_execs=400000))
        s = scn(copy.deepcopy(bt[name]), cfg(max_request_concurrency=2), seed=seed,
                inject=[{'kind': 'shutdown_cancel', 'msg': 'bye'}], faults={'sites': ['s3:', 'stream:fatal']},
                fields=True, field_reads=False)
        jobs.append(job(f'fault + shutdown(cancel) {name}', s, BD(tier)['CANCELFAULT'], want, max_execs=400000))
    return jobs


def jobs_C18(tier, seed):
    want = 'C18'
    jobs = []
    combos = [
        ([T_up('nonseekable', 5), T_dl('path', 'o5')], 0),
        ([T_dl('nonseekable', 'o5'), T_cp('o4')], 0),
        ([T_cp('o5'), T_up('path', 3)], 0),
        ([T_dl('path', 'o5'), T_dl('seekable', 'o6')], 1),
    ]
    C = cfg(max_request_concurrency=2, max_submission_concurrency=2, max_request_queue_size=2,
            max_submission_queue_size=2, max_io_queue_size=2)
    # after any mix of finished transfers a new transfer still succeeds - also a new upload of a file that an
    # earlier (successful / failed / cancelled) transfer already uploaded and that was rewritten since
    for n1, n2 in ((3, 7), (7, 3)):
        trs = [T_up('path', n1), T_dl('path', 'o5'), T_up('path', n2, path_of=0)]
        s = scn(copy.deepcopy(trs), dict(C), seed=seed, script='fresh')
        jobs.append(job(f'fresh re-upload of a rewritten file {n1}->{n2}', s, {'sched': 1}, want, max_execs=100000))
        s = scn(copy.deepcopy(trs), dict(C), seed=seed, script='fresh', victims=[0], faults={'sites': ['s3:'], 'only_key': 0})
        jobs.append(job(f'fresh re-upload of a rewritten file {n1}->{n2} after a failed upload', s, {'sched': 0, 'env': 1}, want, max_execs=20000))
    # the caller reuses ONE extra_args dictionary for all transfers of the manager
    for rcc in ('when_supported', 'when_required'):
        trs = [T_up('path', 3), T_dl('path', 'o5'), T_del('o4'), T_up('path', 7)]
        s = scn(copy.deepcopy(trs), dict(C), seed=seed, script='fresh', shared_extra={'RequestPayer': 'requester'}, rcc=rcc)
        jobs.append(job(f'one extra_args dict for all transfers {rcc}', s, {'sched': 1}, want, max_execs=100000))
    # two streamed downloads competing for a one-slot in-memory window: neither may strand the other
    CW = dict(C, max_in_memory_download_chunks=1)
    for script in ('shutdown', 'wait'):
        trs = [T_dl('nonseekable', 'o5'), T_dl('nonseekable', 'o6')]
        s = scn(copy.deepcopy(trs), dict(CW), seed=seed, script=script)
        jobs.append(job(f'window=1 two streamed downloads {script}', s, BD(tier)['PLAIN'], want, max_execs=300000))
        s = scn(copy.deepcopy(trs), dict(CW), seed=seed, script=script, victims=[0],
                faults={'sites': ['s3:GetObject', 'stream:fatal', 'sink:write'], 'only_key': 0})
        jobs.append(job(f'window=1 two streamed downloads, first fails, {script}', s, BD(tier)['FAULT'], want, max_execs=300000))
    q = tier == 'quick'
    # one submission thread: the second transfer's submission is queued behind the first one's
    C1 = dict(C, max_submission_concurrency=1)
    for ci, (trs, victim) in enumerate(combos):
        if victim == 0 and (not q or ci in (0, 1)):
            s = scn(copy.deepcopy(trs), dict(C1), seed=seed, script='shutdown', victims=[victim],
                    faults={'sites': ['s3:', 'stream:fatal', 'fs:write', 'src:read', 'sink:write'], 'only_key': victim})
            jobs.append(job(f'fail shutdown subconc=1 {[t["op"] for t in trs]}', s, BD(tier)['FAULT'], want, max_execs=1000000))
            s = scn(copy.deepcopy(trs), dict(C1), seed=seed, script='shutdown', victims=[victim],
                    inject=[{'kind': 'cancel', 'target': victim}])
            jobs.append(job(f'cancel shutdown subconc=1 {[t["op"] for t in trs]}', s,
                            {'inject': 1, 'sched': 0} if q else BD(tier)['CANCEL'], want, max_execs=1000000))
        for script in ('shutdown', 'wait', 'with'):
            deep = (script == 'shutdown' and (not q or ci in (0, 3)))
            fb = BD(tier)['FAULT'] if deep else {'env': 1, 'sched': 0}
            cb = BD(tier)['CANCEL'] if (deep and (not q or ci == 0)) else {'inject': 1, 'sched': 0}
            # victim fails: faults restricted to the victim's key
            s = scn(copy.deepcopy(trs), dict(C), seed=seed, script=script, victims=[victim],
                    faults={'sites': ['s3:', 'stream:fatal', 'fs:write', 'src:read', 'sink:write'], 'only_key': victim})
            jobs.append(job(f'fail {script} {[t["op"] for t in trs]} victim={victim}', s, fb, want,
                            max_execs=100000 if q else 1000000))
            s = scn(copy.deepcopy(trs), dict(C), seed=seed, script=script, victims=[victim],
                    inject=[{'kind': 'cancel', 'target': victim}])
            jobs.append(job(f'cancel {script} {[t["op"] for t in trs]} victim={victim}', s, cb, want,
                            max_execs=100000 if q else 1000000))
        # then a fresh transfer
        trs3 = copy.deepcopy(trs) + [T_up('path', 3)]
        s = scn(trs3, dict(C), seed=seed, script='fresh', victims=[victim],
                faults={'sites': ['s3:', 'stream:fatal'], 'only_key': victim})
        jobs.append(job(f'fresh after fail {[t["op"] for t in trs]}', s, {'env': 1, 'sched': 0} if q else BD(tier)['FAULT'], want, max_execs=100000))
        s = scn(copy.deepcopy(trs3), dict(C), seed=seed, script='fresh', victims=[victim],
                inject=[{'kind': 'cancel', 'target': victim}])
        jobs.append(job(f'fresh after cancel {[t["op"] for t in trs]}', s, {'inject': 1, 'sched': 0} if q else BD(tier)['CANCEL'], want, max_execs=100000))
    if tier == 'thorough':
        trs = [T_up('nonseekable', 5), T_dl('nonseekable', 'o5'), T_cp('o4')]
        s = scn(trs, dict(C), seed=seed, script='shutdown', victims=[0, 1],
                inject=[{'kind': 'cancel', 'target': 0}, {'kind': 'cancel', 'target': 1}])
        jobs.append(job('three transfers two cancelled', s, {'inject': 2, 'sched': 1}, want, max_execs=600000))
    return jobs


def jobs_for(prop, tier, seed):
    jobs = globals()[f'jobs_{prop}'](tier, seed)
    if tier == 'thorough':
        # depth where it pays: of the jobs of one budget class (PLAIN, FAULT, CANCEL, ...) only
        # DEEP_K evenly spread ones get the deeper thorough budget, the others keep the quick one
        # (the thorough tier must stay runnable: ~10 min per property on 16 cores)
        Q, T = BD('quick'), BD('thorough')
        DEEP_K = 2
        for key in T:
            idxs = [i for i, j in enumerate(jobs) if isinstance(j.get('bound'), dict) and j['bound'] == T[key] and 'scn' in j]
            K = 1 if 'inject' in T[key] else DEEP_K      # cancel x two preemptions is the costliest class
            if len(idxs) <= K:
                continue
            keep = {idxs[(i * len(idxs)) // K] for i in range(K)}
            for i in idxs:
                if i not in keep:
                    jobs[i] = dict(jobs[i], bound=dict(Q[key]))
        # context-bounding proper: switches forced by blocking are free and ALL explored, only
        # preemptions are bounded (single-transfer scenarios; the other jobs charge forced switches).
        # Fault jobs: one preemption; cancel jobs: every non-preemptive schedule x every cancel point.
        base = list(jobs)
        ff = []
        for j in base:
            sc = j.get('scn')
            if sc is None or sc.get('mode') == 'inline' or len(sc.get('transfers', ())) != 1 or j.get('forced_cost', 1) == 0:
                continue
            b = j['bound'] if isinstance(j['bound'], dict) else {'sched': j['bound']}
            if b.get('sched', 0) < 1 or b.get('env', 0) > 1 or b.get('inject'):
                continue
            ff.append(dict(j, name=j['name'] + ' [forced switches free]', forced_cost=0,
                           bound=dict(b, sched=0 if b.get('inject') else 1), max_execs=200000))
        jobs = jobs + _spread(ff, 6)
    if tier == 'thorough':
        # fine granularity (every point is a preemption point, incl. body/stream reads) with the
        # coordinator's unlocked fields as scheduling points (reads and writes): one preemption
        extra = []
        for j in base:
            sc = j.get('scn')
            if sc is None or sc.get('mode') == 'inline' or len(sc.get('transfers', ())) > 2:
                continue
            b = j['bound'] if isinstance(j['bound'], dict) else {'sched': j['bound']}
            if b.get('sched', 0) < 1:
                continue
            sc2 = copy.deepcopy(sc)
            sc2.update(granularity='fine', fields=True, field_reads=True)
            extra.append(dict(j, name=j['name'] + ' [fine+fields]', scn=sc2,
                              bound=dict(b, sched=1), max_execs=400000))
        jobs = jobs + _spread(extra, 8)
        # keep the tier runnable: no single scenario explores more than 300k executions (a cap that is
        # hit is reported in the evidence and makes the run non-exhaustive for that scenario)
        jobs = [dict(j, max_execs=min(j.get('max_execs') or 300000, 300000)) if 'scn' in j else j for j in jobs]
    return jobs


def _spread(items, k):
    """k items evenly spread over the list (deterministic)"""
    if len(items) <= k:
        return list(items)
    return [items[(i * len(items)) // k] for i in range(k)]
