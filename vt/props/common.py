"""Shared manager-scenario runner and trace oracles (filled in below)."""


def semaphore_quiescence(tier, seed):
    return {'coverage': {}, 'violations': []}


def stream_download_e2e(tier, seed):
    return {'coverage': {}, 'violations': []}


def replay_manager(data):
    raise NotImplementedError
