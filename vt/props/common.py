"""Shared manager-scenario runner and trace oracles.

Every execution of a manager scenario produces a World (event log, FakeS3
tables, destinations).  Oracles are functions world -> [(sig, msg)], the sig
starts with the property id; a property's check reports only its own sigs.
"""
import json
import os
import time

from .. import harness, explore, detsched
from ..env.fs import ScratchDir
from ..env.s3 import InjectedClientError
from ..harness import BUCKET

harness.install()
from s3transfer.exceptions import CancelledError, FatalError, RetriesExceededError  # noqa: E402
from s3transfer.utils import NoResourcesAvailable, S3_RETRYABLE_DOWNLOAD_ERRORS  # noqa: E402

DATA_OPS = ('PutObject', 'GetObject', 'UploadPart', 'UploadPartCopy', 'CopyObject',
            'DeleteObject', 'CreateMultipartUpload', 'CompleteMultipartUpload',
            'AbortMultipartUpload')


# ---------------------------------------------------------------------------
# trace helpers
# ---------------------------------------------------------------------------

class Tr:
    """Indexes of one execution's log."""

    def __init__(self, w):
        self.w = w
        self.log = w.sched.log
        self.by_kind = {}
        for e in self.log:
            self.by_kind.setdefault(e[2], []).append(e)
        self.calls = w.s3.calls
        # transfer index by key
        self.key2idx = {}
        for info in w.transfers:
            self.key2idx[info['key']] = info['idx']
            t = info['t']
            if t['op'] == 'copy':
                self.key2idx.setdefault(t['src_key'], info['idx'])
        self.calls_of = {}
        for c in self.calls:
            k = c['kwargs'].get('Key')
            idx = self.key2idx.get(k)
            c['tidx'] = idx
            self.calls_of.setdefault(idx, []).append(c)

    def ev(self, kind):
        return self.by_kind.get(kind, [])

    def first_step(self, kind, **match):
        for e in self.ev(kind):
            if all(e[3].get(k) == v for k, v in match.items()):
                return e[0]
        return None

    def injected_for(self, idx):
        """faults that hit transfer idx (by call key / tid)"""
        out = []
        w = self.w
        callmap = {c['id']: c for c in self.calls}
        for f in w.all_injected():
            cid = f.get('call')
            if cid is not None:
                if callmap[cid].get('tidx') == idx:
                    out.append(f)
            elif f.get('tid') is not None:
                if f['tid'] == idx:
                    out.append(f)
            else:
                # fs / stream faults: only one transfer uses the fs in the
                # scenarios that inject them, or attribute to all
                out.append(f)
        return out


def cancel_events(tr):
    return tr.ev('inject')


def was_cancel_injected(tr):
    return bool(tr.ev('inject')) or tr.w.scn.get('script', '').startswith('with_raise')


def is_cancel_exc(e):
    return isinstance(e, CancelledError)


# ---------------------------------------------------------------------------
# oracles
# ---------------------------------------------------------------------------

def o_outcome_stable(w, tr):
    """C07 (a finished transfer keeps its result) / C17 end-to-end: the outcome reported once the
    future was done is still the one reported when everything is quiescent."""
    out = []
    aud = getattr(w, 'audit', None)
    if not aud or w.sched.outcome != 'ok':
        return out
    reenter = any(s.reenter for subs in w.subs.values() for s in subs)
    for i, oc in w.outcomes.items():
        a = aud.get(i)
        if a is None or reenter:
            continue
        same = (a[0] == oc[0]) and (a[0] != 'exc' or a[1] is oc[1])
        if not same:
            out.append(('C07:finished-transfer-changed',
                        f'transfer {i}: result() gave {oc[0]}:{oc[1]!r} when it finished but {a[0]}:{a[1]!r} once everything was quiescent'))
    return out


def o_state_forward(w, tr):
    """C17 end-to-end (scenarios with the coordinator's fields instrumented): per transfer the
    timeline of `_status` writes never leaves a terminal state except for the final step's success,
    and the error reported is the first one recorded."""
    out = []
    if w.sched.outcome != 'ok' or not w.scn.get('fields'):
        return out
    if any(s.reenter for subs in w.subs.values() for s in subs):
        return out
    TERMINAL = ('success', 'failed', 'cancelled')
    st, ex = {}, {}
    for e in tr.ev('field'):
        if e[3]['cls'] != 'TransferCoordinator' or e[3]['oid'] is None:
            continue
        if e[3]['name'] == '_status':
            st.setdefault(e[3]['oid'], []).append((e[0], e[3]['value']))
        elif e[3]['name'] == '_exception':
            ex.setdefault(e[3]['oid'], []).append((e[0], e[3]['value']))
    for idx, tl in st.items():
        for (s0, a), (s1, b) in zip(tl, tl[1:]):
            if a in TERMINAL and b != 'success' and b != a:
                out.append((f'C17:e2e:terminal-status-overwritten:{a}->{b}',
                            f'transfer {idx}: status {a!r} (step {s0}) overwritten by {b!r} (step {s1}); timeline {[v for _, v in tl]}'))
                break
            if a in TERMINAL and b not in TERMINAL:
                out.append((f'C17:e2e:left-terminal-state:{a}->{b}', f'transfer {idx}: timeline {[v for _, v in tl]}'))
                break
    for idx, oc in w.outcomes.items():
        first = next((v for _, v in ex.get(idx, []) if v is not None), None)
        if first is None:
            continue
        fin = final_outcome(w, idx) or oc
        if fin[0] == 'exc':
            got = f'{type(fin[1]).__name__}({fin[1]})'
            if got != first:
                out.append(('C17:e2e:later-error-reported',
                            f'transfer {idx}: first error recorded was {first} but result() raises {got}; '
                            f'recorded: {[v for _, v in ex[idx]]}'))
    return out


def final_outcome(w, idx):
    aud = getattr(w, 'audit', None)
    if aud and idx in aud and aud[idx][0] != 'notdone':
        return aud[idx]
    return w.outcomes.get(idx)


def o_termination(w, tr):
    s = w.sched
    out = []
    if s.outcome == 'deadlock':
        out.append(('C04:deadlock', f'no enabled thread; blocked: {s.outcome_detail}'))
    elif s.outcome == 'livelock':
        out.append(('C04:livelock', str(s.outcome_detail)))
    elif s.outcome != 'ok':
        out.append((f'C04:{s.outcome}', str(s.outcome_detail)))
    else:
        if not w.script_done:
            out.append(('C04:user-script-unfinished', f'user thread ended early: {w.script_exc!r}'))
        for t in s.threads:
            if t.exc is not None and t.role != 'inject' and not isinstance(t.exc, KeyboardInterrupt):
                out.append(('C04:thread-crash', f'{t.name}: {t.exc!r}'))
                break
        for i, f in enumerate(w.futures):
            if i not in w.outcomes:
                out.append(('C04:future-never-done', f'transfer {i} has no outcome'))
    return out


def _dest_bytes(w, info):
    t = info['t']
    dst = t.get('dst', 'path')
    if dst == 'path':
        try:
            with open(info['path'], 'rb') as f:
                return f.read()
        except FileNotFoundError:
            return None
    if dst == 'special':
        sink = w.osutil.special_sinks.get(info['path'])
        return sink.concatenation() if sink else b''
    st = info['stream']
    if dst == 'seekable':
        return st.getvalue()
    return st.concatenation()


def o_exact(w, tr):
    """C01 / C02: byte-exact effect on success; fault-free runs succeed."""
    out = []
    if w.sched.outcome != 'ok':
        return out
    nofault = not w.all_injected() and not was_cancel_injected(tr)
    for info in w.transfers:
        idx = info['idx']
        oc = w.outcomes.get(idx)
        if oc is None:
            continue
        op = info['op']
        P = 'C02' if op == 'download' else 'C01'
        if op == 'delete':
            if oc[0] == 'ok' and (BUCKET, info['key']) in w.s3.objects:
                out.append(('C01:delete-not-applied', f'delete {idx} ok but object still present'))
            continue
        if oc[0] != 'ok':
            if nofault:
                out.append((f'{P}:fault-free-failure',
                            f'transfer {idx} ({op}) failed without any injected fault/cancel: {oc[1]!r}'))
            continue
        exp = info['expected']
        if op in ('upload', 'copy'):
            got = w.s3.objects.get((BUCKET, info['key']))
            if got != exp:
                out.append((f'C01:{op}:wrong-object',
                            f'transfer {idx} succeeded but object is {_show(got)} expected {_show(exp)} '
                            f'(scn transfer {info["t"]})'))
            ups = [u for u in w.s3.uploads.values() if u['key'] == info['key']]
            for u in ups:
                if u['completes'] != 1:
                    out.append((f'C01:{op}:completed-{u["completes"]}-times', f'upload {u["id"]} of successful transfer {idx}'))
                ck = u.get('complete_kwargs')
                if ck:
                    parts = ck['MultipartUpload']['Parts']
                    nums = [p.get('PartNumber') for p in parts]
                    if nums != list(range(1, len(nums) + 1)):
                        out.append((f'C01:{op}:part-order', f'parts listed as {nums}'))
                    for p in parts:
                        have = u['parts'].get(p.get('PartNumber'))
                        if have and have.get('cs') is not None and u.get('ctype') != 'FULL_OBJECT':
                            member = 'Checksum' + have['algo']
                            if p.get(member) != have['cs']:
                                out.append((f'C01:{op}:part-checksum',
                                            f'part {p.get("PartNumber")} listed with {member}={p.get(member)!r}, S3 returned {have["cs"]!r}'))
                                break
            # (where the library seeks in a seekable source is its own business as long as the object is
            #  the stream from its call-time position to EOF - a clause on seek positions was removed)
        else:
            got = _dest_bytes(w, info)
            dst = info['t'].get('dst', 'path')
            if got != exp:
                out.append((f'C02:download:{dst}:wrong-bytes',
                            f'transfer {idx} succeeded but destination holds {_show(got)} expected {_show(exp)}; '
                            f'writes={_writes(info)}'))
            elif dst == 'seekable':
                for off, d in info['stream'].writes:
                    if off < 0 or off + len(d) > len(exp):
                        out.append(('C02:download:seekable:write-outside', f'write ({off},{len(d)}) outside [0,{len(exp)})'))
                        break
            # attempts per range
            attempts = w.manager.config.num_download_attempts
            per = {}
            for c in tr.calls_of.get(idx, []):
                if c['op'] == 'GetObject':
                    per[c['kwargs'].get('Range')] = per.get(c['kwargs'].get('Range'), 0) + 1
            for r, n in per.items():
                if n > attempts:
                    out.append(('C03:too-many-attempts', f'{n} GetObject requests for range {r} (limit {attempts})'))
    return out


def _show(b):
    if b is None:
        return 'None'
    if len(b) > 24:
        return f'{bytes(b[:24])!r}...({len(b)} bytes)'
    return f'{bytes(b)!r}'


def _writes(info):
    st = info.get('stream')
    if st is None:
        return None
    return [(o, len(d)) for o, d in st.writes][:12]


def o_streaming_order(w, tr):
    """C16 end-to-end: non-seekable destinations are written in strictly
    increasing offset order, each byte once (whatever the outcome)."""
    out = []
    for info in w.transfers:
        if info['op'] != 'download':
            continue
        dst = info['t'].get('dst', 'path')
        if dst not in ('nonseekable', 'special'):
            continue
        if dst == 'special':
            sink = w.osutil.special_sinks.get(info['path'])
            writes = sink.writes if sink else []
        else:
            writes = info['stream'].writes
        exp = info['expected']
        cat = b''.join(d for _, d in writes)
        if cat != exp[:len(cat)]:
            # find first divergence
            k = next((i for i in range(min(len(cat), len(exp))) if cat[i] != exp[i]), min(len(cat), len(exp)))
            out.append(('C16:e2e:out-of-order-or-duplicate',
                        f'transfer {info["idx"]}: stream received {_show(cat)} which is not a prefix of the object '
                        f'{_show(exp)} (first divergence at byte {k}); writes={[(o, len(d)) for o, d in writes][:10]}'))
        oc = w.outcomes.get(info['idx'])
        if oc and oc[0] == 'ok' and cat != exp:
            out.append(('C16:e2e:incomplete', f'transfer {info["idx"]} succeeded with {len(cat)}/{len(exp)} bytes written'))
    return out


def o_failure_truth(w, tr):
    """C03: a fault that reached the library makes result() raise one of the
    failures that occurred (or RetriesExceeded / the cancellation error)."""
    out = []
    if w.sched.outcome != 'ok':
        return out
    inj = w.all_injected()
    if not inj:
        return out
    single = len(w.transfers) == 1
    cancelled = was_cancel_injected(tr)
    for info in w.transfers:
        idx = info['idx']
        oc = w.outcomes.get(idx)
        if oc is None:
            continue
        mine = tr.injected_for(idx) if not single else inj
        if not mine:
            continue
        fatal = [f for f in mine if not f['retryable']]
        retry = [f for f in mine if f['retryable']]
        attempts = w.manager.config.num_download_attempts
        per_call_range = {}
        callmap = {c['id']: c for c in tr.calls}
        for f in retry:
            c = callmap.get(f.get('call'))
            r = c['kwargs'].get('Range') if c else None
            per_call_range[r] = per_call_range.get(r, 0) + 1
        exhausted = any(n >= attempts for n in per_call_range.values())
        # a fault only matters if it happened before the transfer was done
        done_step = tr.first_step('cb.done', tid=idx)
        if done_step is not None:
            fatal = [f for f in fatal if f['step'] <= done_step]
        # faults inside cleanup calls (abort) or after the outcome was decided
        # cannot change the outcome; they are only counted when nothing else failed
        fatal_main = [f for f in fatal if f.get('op') != 'AbortMultipartUpload']
        must_fail = bool(fatal_main) or exhausted
        if oc[0] == 'ok':
            if must_fail:
                what = (fatal_main or retry)[0]
                out.append((f'C03:success-despite-fault:{what["label"]}',
                            f'transfer {idx} reported success although {what["label"]} fault '
                            f'{type(what["exc"]).__name__} was injected at step {what["step"]} '
                            f'(op {what.get("op")})'))
            continue
        if oc[0] != 'exc':
            continue
        e = oc[1]
        ids = [f['exc'] for f in mine]
        ok = any(e is x for x in ids)
        if not ok and isinstance(e, RetriesExceededError):
            ok = any(e.last_exception is x for x in ids) and exhausted
            if not ok:
                out.append(('C03:retries-exceeded-wrongly',
                            f'transfer {idx}: RetriesExceededError(last={e.last_exception!r}) with '
                            f'{per_call_range} retryable faults and budget {attempts}'))
                continue
        if not ok and is_cancel_exc(e) and cancelled:
            ok = True
        if not ok:
            # an OSError raised by the real file system as a *consequence* of an injected
            # fault is still a failure that actually occurred; accept exceptions chained
            # from / caused by injected ones
            c = e
            seen = 0
            while c is not None and seen < 5:
                if any(c is x for x in ids):
                    ok = True
                    break
                c = c.__cause__ or c.__context__
                seen += 1
        if not ok:
            out.append(('C03:wrong-exception',
                        f'transfer {idx} raised {e!r}, which is none of the injected failures '
                        f'{[(f["label"], type(f["exc"]).__name__) for f in mine]}'))
        # non-retryable stream/get faults are never retried
        for f in fatal_main:
            c = callmap.get(f.get('call'))
            if c and c['op'] == 'GetObject':
                later = [d for d in tr.calls_of.get(idx, []) if d['op'] == 'GetObject' and
                         d['kwargs'].get('Range') == c['kwargs'].get('Range') and d['begin'] > f['step']]
                if later:
                    out.append(('C03:non-retryable-retried',
                                f'range {c["kwargs"].get("Range")} was requested again after non-retryable fault'))
    return out


def o_mpu(w, tr):
    """C05 on the FakeS3 multipart table."""
    out = []
    if w.sched.outcome != 'ok':
        return out
    for uid, u in w.s3.uploads.items():
        calls = [c for c in tr.calls if c.get('upload') == uid or c['kwargs'].get('UploadId') == uid]
        create = next((c for c in calls if c['op'] == 'CreateMultipartUpload'), None)
        if create is None or create['outcome'] != 'ok':
            continue          # the id never reached the library
        idx = create.get('tidx')
        oc = final_outcome(w, idx)
        if oc is None:
            continue
        aborts = [c for c in calls if c['op'] == 'AbortMultipartUpload']
        completes_applied = u['completes']
        others = [c for c in calls if c['op'] not in ('AbortMultipartUpload',)]
        if completes_applied > 1:
            out.append(('C05:completed-twice', f'{uid} completed {completes_applied} times'))
        if oc[0] == 'ok':
            if completes_applied != 1:
                out.append(('C05:success-without-complete', f'{uid}: transfer {idx} ok, completes={completes_applied}'))
            if aborts:
                out.append(('C05:abort-on-success', f'{uid}: transfer {idx} ok but abort issued'))
        else:
            done_step = tr.first_step('cb.done', tid=idx)
            res_step = tr.first_step('user.result', idx=idx)
            limit = min(x for x in (done_step, res_step, 10 ** 9) if x is not None)
            early = [a for a in aborts if a['begin'] is not None and a['begin'] <= limit]
            if not aborts:
                out.append(('C05:orphaned-upload',
                            f'{uid}: the library received the id, transfer {idx} ended with {type(oc[1]).__name__} '
                            f'but no AbortMultipartUpload was issued'))
            elif not early:
                out.append(('C05:abort-after-done', f'{uid}: abort begun at step {aborts[0]["begin"]} after done was announced ({limit})'))
        if aborts:
            a0 = min(a['begin'] for a in aborts if a['begin'] is not None)
            for c in others:
                if c['op'] in ('UploadPart', 'UploadPartCopy', 'CompleteMultipartUpload'):
                    if c['begin'] is not None and c['begin'] > a0:
                        out.append((f'C05:{c["op"]}-after-abort',
                                    f'{uid}: {c["op"]} begun at step {c["begin"]} after abort begun at {a0}'))
                        break
            for c in others:
                if c['begin'] is not None and c['begin'] < a0 and (c['end'] is None or c['end'] > a0):
                    out.append(('C05:abort-while-request-in-flight',
                                f'{uid}: abort begun at step {a0} while {c["op"]} (begin {c["begin"]}, end {c["end"]}) was in flight'))
                    break
    return out


def o_callbacks(w, tr):
    """C08."""
    out = []
    if w.sched.outcome == 'deadlock':
        # "on_done runs exactly once in every outcome": the user waits forever for a transfer whose
        # on_done never ran although none of its requests is in flight any more
        for info in w.transfers:
            idx = info['idx']
            if idx in w.outcomes:
                continue
            for sub in w.subs.get(idx, []):
                d = [e for e in tr.ev('cb.done') if e[3]['tid'] == idx and e[3]['sub'] == sub.name]
                inflight = [c for c in tr.calls_of.get(idx, []) if c['begin'] is not None and c['end'] is None]
                if not d and not inflight:
                    out.append(('C08:on_done-never-runs',
                                f'transfer {idx} sub {sub.name}: every request returned, nothing is running, and on_done was never called; '
                                f'blocked: {w.sched.outcome_detail}'))
                    return out
        return out
    if w.sched.outcome != 'ok':
        return out
    for info in w.transfers:
        idx = info['idx']
        subs = w.subs.get(idx, [])
        calls = tr.calls_of.get(idx, [])
        first_begin = min((c['begin'] for c in calls if c['begin'] is not None), default=None)
        status_writes = [e for e in tr.ev('field') if e[3]['oid'] == idx and e[3]['name'] == '_status']
        for sub in subs:
            q = [e for e in tr.ev('cb.queued') if e[3]['tid'] == idx and e[3]['sub'] == sub.name]
            d = [e for e in tr.ev('cb.done') if e[3]['tid'] == idx and e[3]['sub'] == sub.name]
            dend = [e for e in tr.ev('cb.done.end') if e[3]['tid'] == idx and e[3]['sub'] == sub.name]
            if len(q) > 1:
                out.append(('C08:on_queued-twice', f'transfer {idx} sub {sub.name}: {len(q)} on_queued'))
            if len(q) == 0 and calls:
                out.append(('C08:requests-without-on_queued', f'transfer {idx}: S3 requests issued but on_queued never ran'))
            if q and first_begin is not None and q[0][0] > first_begin:
                out.append(('C08:on_queued-after-request', f'transfer {idx}: on_queued at step {q[0][0]}, first request at {first_begin}'))
            if idx in w.outcomes and len(d) != 1:
                out.append((f'C08:on_done-{len(d)}-times', f'transfer {idx} sub {sub.name}: on_done ran {len(d)} times (outcome {w.outcomes[idx][0]})'))
            for e in d[:1]:
                if not e[3]['done']:
                    out.append(('C08:on_done-before-done', f'transfer {idx}: future.done() False inside on_done'))
                if e[3]['blocked']:
                    out.append(('C08:on_done-result-blocks', f'transfer {idx}: result() would block inside on_done'))
                late = [c for c in calls if c['begin'] is not None and (c['end'] is None or c['end'] > e[0]) and c['begin'] <= e[0]]
                if late:
                    c = late[0]
                    out.append(('C08:on_done-while-request-in-flight',
                                f'transfer {idx}: on_done at step {e[0]} while {c["op"]} (begin {c["begin"]}, end {c["end"]}) in flight'))
                after = [c for c in calls if c['begin'] is not None and c['begin'] > e[0]]
                if after:
                    c = after[0]
                    out.append(('C08:request-after-on_done',
                                f'transfer {idx}: {c["op"]} begun at step {c["begin"]} after on_done at {e[0]}'))
                # outcome final: the result seen inside on_done equals the final one
                oc = w.outcomes.get(idx)
                if oc is not None and not sub.reenter.get('done') and not any(
                        s.reenter.get('done') for s in subs):
                    final = 'ok' if oc[0] == 'ok' else type(oc[1]).__name__
                    if e[3]['res'] is not None and e[3]['res'] != final:
                        out.append(('C08:outcome-not-final-at-on_done',
                                    f'transfer {idx}: on_done saw {e[3]["res"]}, final outcome {final}'))
            if d:
                prog = [e for e in tr.ev('cb.progress') if e[3]['tid'] == idx and e[0] > d[0][0]]
                if prog:
                    out.append(('C08:progress-after-on_done', f'transfer {idx}: on_progress at step {prog[0][0]} after on_done began at {d[0][0]}'))
        # size supplied -> no HeadObject
        if any(getattr(s, 'size', None) is not None for s in subs):
            if any(c['op'] == 'HeadObject' for c in calls):
                out.append(('C08:head-despite-size', f'transfer {idx}: size provided in on_queued but HeadObject issued'))
        # all subscribers' on_done ran although the first raised
        if subs and subs[0].raise_done and idx in w.outcomes:
            for sub in subs[1:]:
                d = [e for e in tr.ev('cb.done') if e[3]['tid'] == idx and e[3]['sub'] == sub.name]
                if not d:
                    out.append(('C08:on_done-skipped-after-raise', f'transfer {idx}: {sub.name}.on_done skipped'))
    return out


def o_progress(w, tr):
    """C09."""
    out = []
    if w.sched.outcome != 'ok':
        return out
    for info in w.transfers:
        idx = info['idx']
        if info['op'] == 'delete':
            continue
        oc = w.outcomes.get(idx)
        if not oc or oc[0] != 'ok':
            continue
        size = len(info['expected'])
        subs = w.subs.get(idx, [])
        if not subs:
            continue
        name = subs[0].name
        vals = [e[3]['n'] for e in tr.ev('cb.progress') if e[3]['tid'] == idx and e[3]['sub'] == name]
        tot = 0
        for v in vals:
            tot += v
            if tot < 0 or tot > size:
                out.append(('C09:running-sum-out-of-range',
                            f'transfer {idx} ({info["op"]}): running progress {tot} outside [0,{size}]; values {vals[:20]}'))
                break
        else:
            if tot != size:
                out.append(('C09:sum-mismatch',
                            f'transfer {idx} ({info["op"]}, {info["t"]}): progress sums to {tot}, size {size}; values {vals[:20]}'))
    return out


def _intervals_max(events):
    """events: list of (step, +1/-1); max simultaneous."""
    events.sort(key=lambda e: (e[0], e[1]))
    cur = mx = 0
    for _, d in events:
        cur += d
        mx = max(mx, cur)
    return mx


def o_limits(w, tr):
    """C10 (post-hoc over begin/end steps)."""
    out = []
    cfg = w.manager.config if w.manager else None
    if cfg is None:
        return out
    if w.sched.outcome == 'deadlock':
        for e in tr.ev('fut.cb_exception') + tr.ev('ex.end'):
            if 'NoResourcesAvailable' in (e[3].get('exc') or ''):
                out.append(('C10:no-resources', f'a submit failed with {e[3]["exc"]} (raised inside a done callback at step {e[0]}) instead of blocking; the transfer then never finished'))
                return out
    END = 10 ** 9
    ev_data, ev_head = [], []
    for c in tr.calls:
        if c['begin'] is None:
            continue
        iv = [(c['begin'], 1), ((c['end'] if c['end'] is not None else END), -1)]
        if c['op'] == 'HeadObject':
            ev_head += iv
        elif c['op'] != 'AbortMultipartUpload':
            ev_data += iv
            # (which thread issues a request is not part of the property - only the numbers are:
            #  a structural clause "data requests run on request workers" was removed as unsound)
    mx = _intervals_max(ev_data)
    w.sched.user['max_data_inflight'] = mx
    if mx > cfg.max_request_concurrency:
        out.append(('C10:request-concurrency', f'{mx} data requests in flight, max_request_concurrency={cfg.max_request_concurrency}'))
    mh = _intervals_max(ev_head)
    w.sched.user['max_head_inflight'] = mh
    if mh > cfg.max_submission_concurrency:
        out.append(('C10:submission-concurrency', f'{mh} HeadObject in flight, max_submission_concurrency={cfg.max_submission_concurrency}'))
    # queue occupancy per executor: submit .. end
    tagged_up, tagged_down = _tagged_labels(w)
    occ = {}
    sub = {}
    for e in tr.ev('ex.submit'):
        sub[e[3]['fut']] = (e[0], e[3]['ex'], e[3]['task'])
    ends = {e[3]['fut']: e[0] for e in tr.ev('ex.end')}
    for fut, (st, ex, task) in sub.items():
        cls = 'plain'
        base = task.split('.', 1)[-1]
        tid = int(task.split('.', 1)[0][1:]) if task.startswith('t') and '.' in task else None
        if ex == 'ex0':
            if (tid, base.split('#')[0].split('@')[0]) in tagged_up:
                cls = 'up'
            elif (tid, base.split('#')[0].split('@')[0]) in tagged_down:
                cls = 'down'
        occ.setdefault((ex, cls), []).extend([(st, 1), (ends.get(fut, END), -1)])
    limits = {('ex0', 'plain'): ('max_request_queue_size', cfg.max_request_queue_size),
              ('ex0', 'up'): ('max_in_memory_upload_chunks', cfg.max_in_memory_upload_chunks),
              ('ex0', 'down'): ('max_in_memory_download_chunks', cfg.max_in_memory_download_chunks),
              ('ex1', 'plain'): ('max_submission_queue_size', cfg.max_submission_queue_size),
              ('ex2', 'plain'): ('max_io_queue_size', cfg.max_io_queue_size)}
    seen_max = {}
    for k, evs in occ.items():
        m = _intervals_max(evs)
        seen_max[f'{k[0]}:{k[1]}'] = m
        name, lim = limits.get(k, (None, None))
        if lim is not None and m > lim:
            out.append((f'C10:queue:{name}', f'{m} queued-or-running tasks on {k}, {name}={lim}'))
    w.sched.user['max_occupancy'] = seen_max
    # IO writes: one at a time, in queue order
    for info in w.transfers:
        st = info.get('stream')
        if st is not None and hasattr(st, 'max_writers') and st.max_writers > 1:
            out.append(('C10:concurrent-writes', f'{st.max_writers} concurrent writes to destination of transfer {info["idx"]}'))
    for info in w.transfers:
        if info['op'] == 'download' and info['t'].get('dst') == 'nonseekable':
            cat = info['stream'].concatenation()
            if cat != info['expected'][:len(cat)]:
                out.append(('C10:writes-not-in-queue-order',
                            f'transfer {info["idx"]}: the stream received {_show(cat)}, which is not the order in which the writes were released '
                            f'({_show(info["expected"])}); writes={_writes(info)}'))
    osu = getattr(w, 'osutil', None)
    if osu is not None and getattr(osu, 'max_writers', 0) > 1:
        out.append(('C10:concurrent-writes', f'{osu.max_writers} concurrent writes to one destination file'))
    # "the writes to any one destination are performed ... in the order they were queued": per
    # transfer (= per destination), the IO tasks start in the order in which they were submitted
    def _owner(label):
        return label.split('.', 1)[0] if label.startswith('t') and '.' in label else None
    per_sub, per_start = {}, {}
    for e in tr.ev('ex.submit'):
        if e[3]['ex'] == 'ex2':
            per_sub.setdefault(_owner(e[3]['task']), []).append(e[3]['fut'])
    for e in tr.ev('ex.start'):
        if e[3]['ex'] == 'ex2':
            per_start.setdefault(_owner(e[3]['task']), []).append(e[3]['fut'])
    for owner, started in per_start.items():
        if owner is not None and started != per_sub.get(owner, [])[:len(started)]:
            out.append(('C10:io-order', f'IO tasks of transfer {owner} started in an order different from the order they were queued'))
            break
    ioex = [x for x in w.sched.user.get('executors', []) if x._name == 'ex2']
    if ioex:
        # observation for the evidence only: the property bounds writers per destination
        # (judged above), not the number of IO threads
        w.sched.user['max_io_tasks_running'] = ioex[0].max_running
    for e in tr.ev('fut.cb_exception') + tr.ev('ex.end'):
        if 'NoResourcesAvailable' in (e[3].get('exc') or ''):
            out.append(('C10:no-resources', f'a submit failed with {e[3]["exc"]} (raised inside a task / done callback at step {e[0]}) instead of blocking'))
            break
    for idx, oc in w.outcomes.items():
        if oc[0] == 'exc' and isinstance(oc[1], NoResourcesAvailable):
            out.append(('C10:no-resources', f'transfer {idx} failed with NoResourcesAvailable instead of blocking'))
    return out


def _tagged_labels(w):
    up, down = set(), set()
    for info in w.transfers:
        t = info['t']
        if t['op'] == 'upload':
            src = t.get('src', 'path')
            if src == 'nonseekable':
                up.add((info['idx'], 'UploadPartTask'))
                up.add((info['idx'], 'PutObjectTask'))
            elif src in ('seekable', 'duck'):
                up.add((info['idx'], 'UploadPartTask'))
        elif t['op'] == 'download' and t.get('dst') in ('nonseekable', 'special'):
            down.add((info['idx'], 'GetObjectTask'))
            down.add((info['idx'], 'ImmediatelyWriteIOGetObjectTask'))
    return up, down


def o_memory(w, tr):
    """C11 (post-hoc)."""
    out = []
    cfg = w.manager.config if w.manager else None
    if cfg is None:
        return out
    END = 10 ** 9
    # uploads from streams: bytes read from user streams minus bytes of finished part requests
    stream_uploads = [i for i in w.transfers if i['op'] == 'upload' and i['t'].get('src') in ('seekable', 'nonseekable', 'duck')]
    if stream_uploads:
        ev = []
        names = {f'src{i["idx"]}': i['idx'] for i in stream_uploads}
        for e in tr.ev('src.read'):
            if e[3]['name'] in names and e[3]['n']:
                ev.append((e[0], e[3]['n']))
        idxs = set(names.values())
        for c in tr.calls:
            if c.get('tidx') in idxs and c['op'] in ('UploadPart', 'PutObject') and c.get('body_len') and c['end'] is not None:
                ev.append((c['end'], -c['body_len']))
        ev.sort()
        cur = mx = 0
        for _, d in ev:
            cur += d
            mx = max(mx, cur)
        per = max(cfg.multipart_chunksize, cfg.multipart_threshold)
        # effective chunksize may have been raised by the adjuster
        adj = w.scn.get('adjuster') or {}
        per = max(per, adj.get('min_size', 0))
        limit = (cfg.max_in_memory_upload_chunks + cfg.max_submission_concurrency) * per
        w.sched.user['max_upload_buffered'] = mx
        # (read-minus-sent is a faithful count of live buffers only while every part that was read
        #  is also sent: in executions where a transfer failed or was cancelled the parts read
        #  afterwards are dropped unsent - those executions are judged by the liveness clause above)
        all_ok = all(w.outcomes.get(i['idx'], ('?',))[0] == 'ok' for i in stream_uploads)
        if mx > limit and all_ok:
            out.append(('C11:upload-buffers',
                        f'{mx} bytes read from user streams and not yet sent; limit '
                        f'({cfg.max_in_memory_upload_chunks}+{cfg.max_submission_concurrency})*{per}={limit}'))
    # buffers that EXIST (scenarios with track_buffers): chunks handed to the library by the user's
    # stream that something still references, counted at every later read of the stream
    for info in stream_uploads:
        st = info.get('stream')
        st = getattr(st, '_s_inner', st)
        if st is not None and getattr(st, 'track', False):
            lim = cfg.max_in_memory_upload_chunks + cfg.max_submission_concurrency
            w.sched.user['max_upload_chunks_alive'] = max(st.max_alive, w.sched.user.get('max_upload_chunks_alive', 0))
            if st.max_alive > lim:
                out.append(('C11:upload-buffers-alive',
                            f'transfer {info["idx"]}: {st.max_alive} chunks read from the stream were still held in memory at a later read; '
                            f'limit {cfg.max_in_memory_upload_chunks}+{cfg.max_submission_concurrency}={lim}'))
    # seekable streams: every part body is one read of the stream into its own buffer, so buffers
    # can be counted exactly (manager-wide): non-empty reads minus finished part requests
    ev = []
    for info in stream_uploads:
        if info['t'].get('src') != 'seekable':
            continue
        idx = info['idx']
        parts = [c for c in tr.calls_of.get(idx, []) if c['op'] == 'UploadPart']
        if not parts:
            continue
        in_call = [(c['begin'], c['end'] if c['end'] is not None else END) for c in tr.calls_of.get(idx, [])]
        ev += [(e[0], 1) for e in tr.ev('src.read')
               if e[3]['name'] == f'src{idx}' and e[3]['n'] and not any(b <= e[0] <= en for b, en in in_call)]
        ev += [(c['end'], -1) for c in parts if c['end'] is not None]
    if ev:
        nb = _intervals_max(ev)
        w.sched.user['max_upload_buffers'] = nb
        lim = cfg.max_in_memory_upload_chunks + cfg.max_submission_concurrency
        if nb > lim and all(w.outcomes.get(i['idx'], ('?',))[0] == 'ok' for i in stream_uploads):
            out.append(('C11:upload-buffer-count',
                        f'{nb} part buffers read from seekable streams and not yet sent; limit '
                        f'{cfg.max_in_memory_upload_chunks}+{cfg.max_submission_concurrency}={lim}'))
    # pending destination writes: IO-stage occupancy and chunk size
    END2 = 10 ** 9
    io_ev = []
    ends = {e[3]['fut']: e[0] for e in tr.ev('ex.end') if e[3]['ex'] == 'ex2'}
    for e in tr.ev('ex.submit'):
        if e[3]['ex'] == 'ex2' and 'Write' in e[3]['task']:
            io_ev += [(e[0], 1), (ends.get(e[3]['fut'], END2), -1)]
    if io_ev:
        m = _intervals_max(io_ev)
        w.sched.user['max_pending_io_writes'] = m
        if m > cfg.max_io_queue_size:
            out.append(('C11:io-queue', f'{m} destination writes pending in the IO stage, max_io_queue_size={cfg.max_io_queue_size}'))
    for info in w.transfers:
        st = info.get('stream')
        if info['op'] == 'download' and st is not None and hasattr(st, 'writes'):
            big = [len(d) for _, d in st.writes if len(d) > cfg.io_chunksize]
            if big:
                out.append(('C11:io-chunk-size', f'transfer {info["idx"]}: a write of {big[0]} bytes, io_chunksize={cfg.io_chunksize}'))
    # downloads to non-seekable: window
    for info in w.transfers:
        t = info['t']
        if t['op'] != 'download' or t.get('dst') not in ('nonseekable', 'special'):
            continue
        idx = info['idx']
        gets = [c for c in tr.calls_of.get(idx, []) if c['op'] == 'GetObject' and c['kwargs'].get('Range')]
        if not gets:
            continue
        c_sz = cfg.multipart_chunksize

        def part_of(c):
            return int(c['kwargs']['Range'].split('=')[1].split('-')[0]) // c_sz
        # a part is finished when its GetObjectTask ended
        task_end = {}
        for e in tr.ev('ex.end'):
            lab = e[3]['task']
            if lab.startswith(f't{idx}.GetObjectTask@'):
                task_end[int(lab.split('@')[1]) // c_sz] = e[0]
        nparts = max(part_of(c) for c in gets) + 1
        win = cfg.max_in_memory_download_chunks
        if True:
            for c in gets:
                p = part_of(c)
                lowest = min([q for q in range(nparts) if task_end.get(q, END) > c['begin']], default=nparts)
                if p - lowest >= win:
                    out.append(('C11:download-window',
                                f'transfer {idx}: part {p} requested at step {c["begin"]} while lowest unfinished part is {lowest}; window {win}'))
                    break
        # bytes received minus bytes written
        ev = []
        for e in tr.ev('stream.read'):
            cc = next((c for c in gets if c['id'] == e[3]['call']), None)
            if cc is not None and e[3]['n']:
                ev.append((e[0], e[3]['n']))
        sink_name = f'dst{idx}' if t.get('dst') == 'nonseekable' else 'special'
        for e in tr.ev('sink.write'):
            if e[3]['name'] == sink_name:
                ev.append((e[0], -e[3]['n']))
        # retried ranges deliver bytes again that are dropped: only count when no retry happened
        if not any(f['retryable'] for f in w.all_injected()):
            ev.sort()
            cur = mx = 0
            for _, d in ev:
                cur += d
                mx = max(mx, cur)
            lim = win * c_sz + cfg.max_io_queue_size * cfg.io_chunksize + cfg.max_request_concurrency * cfg.io_chunksize
            w.sched.user['max_download_buffered'] = mx
            if mx > lim:
                out.append(('C11:download-buffered', f'transfer {idx}: {mx} bytes received and not yet written; bound {lim}'))
    return out


def o_semaphores(w, tr):
    """C12(c): at quiescence every semaphore is back at full capacity."""
    out = []
    if w.sched.outcome != 'ok' or not w.script_done:
        return out
    for sem in w.sched.user.get('semaphores', []):
        if sem._value != sem._initial:
            out.append(('C12:e2e:semaphore-not-full', f'{sem!r} at quiescence'))
    fw = getattr(w, 'final_windows', None)
    if fw:
        for n, conf in fw:
            if n != conf:
                out.append(('C12:e2e:window-not-full', f'sliding window at {n}, configured {conf}'))
    return out


def o_barrier(w, tr):
    """C18: nothing happens after shutdown returned; isolation."""
    out = []
    if w.sched.outcome not in ('ok', 'deadlock'):
        return out
    sh = tr.first_step('user.shutdown_returned')
    if sh is None:
        if w.sched.outcome == 'deadlock' and tr.first_step('user.shutdown_called') is not None:
            out.append(('C18:shutdown-never-returns', f'shutdown()/with-exit blocked forever: {w.sched.outcome_detail}'))
        return out
    inj_threads = {t.id for t in w.sched.threads if t.role == 'inject'}
    for kind in ('s3.begin', 'fs.write', 'sink.write', 'cb.queued', 'cb.progress', 'cb.done', 'fs.rename', 'fs.remove'):
        # callbacks executed synchronously inside the user's own, still running,
        # future.cancel()/shutdown(cancel) call belong to that call, not to the manager
        late = [e for e in tr.ev(kind) if e[0] > sh and e[1] not in inj_threads]
        if late:
            out.append((f'C18:{kind}-after-shutdown',
                        f'{kind} {late[0][3]} at step {late[0][0]} after shutdown returned at step {sh}'))
    # every transfer done when shutdown returned
    flags = [e for e in tr.ev('user.done_flags')]
    if flags:
        for idx, f in enumerate(flags[0][3]['flags']):
            if not f:
                out.append(('C18:not-done-at-shutdown', f'transfer {idx}: future.done() is False after shutdown returned'))
    return out


def o_isolation(w, tr):
    """C18: a transfer that was neither faulted nor cancelled succeeds."""
    out = []
    victims = set(w.scn.get('victims', ()))
    if w.sched.outcome == 'deadlock' and len(w.transfers) > 1 and tr.first_step('user.shutdown_called') is None:
        # the user waits for the results one by one and blocks forever: a transfer of the mix never finishes
        stuck = [i['idx'] for i in w.transfers if i['idx'] not in w.outcomes]
        if stuck:
            out.append(('C18:transfer-of-the-mix-never-finishes',
                        f'transfers {stuck} never finished (victims of faults/cancels in this scenario: {sorted(victims)}); '
                        f'blocked: {w.sched.outcome_detail}'))
        return out
    if w.sched.outcome != 'ok':
        return out
    # "... never changes the bytes or the result of another" / "a new transfer still succeeds": the
    # byte-exactness clauses of C01/C02 for every transfer that was not itself faulted or cancelled
    import re as _re
    for sig, msg in o_exact(w, tr):
        m = _re.match(r'transfer (\d+)', msg)
        if m and int(m.group(1)) not in victims and len(w.transfers) > 1:
            out.append(('C18:bystander-bytes-wrong:' + sig.split(':', 1)[1], msg))
    for info in w.transfers:
        idx = info['idx']
        if idx in victims:
            continue
        oc = w.outcomes.get(idx)
        if oc and oc[0] != 'ok':
            out.append(('C18:bystander-failed',
                        f'transfer {idx} ({info["op"]}) failed with {oc[1]!r} although only transfers {sorted(victims)} were faulted/cancelled'))
    return out


def o_cancel(w, tr):
    """C07."""
    out = []
    if w.sched.outcome == 'deadlock':
        # "makes every not-yet-finished transfer finish with the cancellation error": a transfer
        # that was cancelled and never becomes done (the user blocks on it forever) breaks C07 too
        cancels = tr.ev('inject')
        scr = w.scn.get('script', 'wait')
        if cancels or scr.startswith('with_raise'):
            missing = [i for i in range(len(w.futures)) if i not in w.outcomes]
            how = cancels[0][3]['kind'] if cancels else scr
            out.append((f'C07:cancelled-transfer-never-finishes:{how}',
                        f'after {how} transfer(s) {missing} never became done; blocked: {w.sched.outcome_detail}'))
        return out
    if w.sched.outcome != 'ok':
        return out
    scn = w.scn
    for t in w.sched.threads:
        if t.role == 'inject' and t.exc is not None:
            out.append((f'C07:entry-point-raised:{t.name}', f'{t.name} raised {t.exc!r}'))
    for e in tr.ev('inject.raised'):
        out.append((f'C07:entry-point-raised:{e[3]["kind"]}',
                    f'{e[3]["kind"]} raised {e[3]["exc"]}: {e[3]["msg"]}'))
    script = scn.get('script', 'wait')
    expectations = []    # (step, targets, exc_type, msg)
    for e in tr.ev('inject'):
        k = e[3]['kind']
        if k == 'cancel':
            expectations.append((e[0], [e[3]['target']], CancelledError, ''))
        elif k == 'shutdown_cancel':
            expectations.append((e[0], list(range(len(w.futures))), CancelledError, e[3]['msg']))
        elif k == 'ctrlc':
            expectations.append((e[0], list(range(len(w.futures))), CancelledError, None))
    if script == 'with_clean' and tr.ev('inject'):
        expectations = [(x[0], x[1], x[2], ('KeyboardInterrupt()' if x[3] is None else x[3])) for x in expectations]
    if script == 'with_raise_kbd':
        expectations.append((tr.first_step('user.submitted', idx=len(w.futures) - 1) or 0,
                             list(range(len(w.futures))), CancelledError, 'KeyboardInterrupt()'))
    elif script == 'with_raise_value':
        expectations.append((0, list(range(len(w.futures))), FatalError, 'boom'))
    elif script == 'with_raise_empty':
        expectations.append((0, list(range(len(w.futures))), FatalError, 'UserBoom()'))
    if not expectations:
        return out
    faults = w.all_injected()
    status_writes = {}
    for e in tr.ev('field'):
        if e[3]['name'] == '_status' and e[3]['cls'] == 'TransferCoordinator':
            status_writes.setdefault(e[3]['oid'], []).append((e[0], e[3]['value']))
    for info in w.transfers:
        idx = info['idx']
        oc = w.outcomes.get(idx)
        if oc is None:
            continue
        exps = [x for x in expectations if idx in x[1]]
        if not exps:
            continue
        calls = tr.calls_of.get(idx, [])
        sw = status_writes.get(idx, [])
        # which status did the (first) cancel overwrite?
        cancelled_from = None
        for i, (st, val) in enumerate(sw):
            if val == 'cancelled':
                cancelled_from = sw[i - 1][1] if i > 0 else 'not-started'
                break
        if oc[0] == 'exc' and is_cancel_exc(oc[1]):
            e = oc[1]
            okk = False
            for (_, _, typ, msg) in exps:
                if type(e) is typ and (msg is None or str(e) == msg or
                                       (msg is None and str(e) in ('', 'KeyboardInterrupt()'))):
                    okk = True
                if msg is None and type(e) is CancelledError and str(e) in ('', 'KeyboardInterrupt()'):
                    okk = True
            if not okk:
                out.append(('C07:wrong-cancel-error',
                            f'transfer {idx} ended with {type(e).__name__}({str(e)!r}); entry points prescribe '
                            f'{[(t.__name__, m) for _, _, t, m in exps]}'))
            # "had not started": cancelled while its status was still not-started, or queued (its
            # on_queued callbacks running) - the transfer never reached `running`
            if cancelled_from in ('not-started', 'queued') and sw:
                if calls:
                    out.append(('C07:requests-for-unstarted-transfer',
                                f'transfer {idx} was cancelled before it started (status {cancelled_from}) but issued {[c["op"] for c in calls]}'))
                if cancelled_from == 'not-started' and any(ev[3]['tid'] == idx for ev in tr.ev('cb.queued')):
                    out.append(('C07:on_queued-for-unstarted-transfer', f'transfer {idx}'))
        elif oc[0] == 'ok':
            pass        # success is admissible when the cancel raced completion; effect checked by o_exact
        elif oc[0] == 'exc' and not faults:
            out.append(('C07:wrong-outcome',
                        f'transfer {idx} ended with {oc[1]!r} although only a cancellation happened'))
        # unfinished at cancel time must end cancelled or complete successfully:
        first_cancel = min(x[0] for x in exps)
    # "... runs its cleanups": the C05 / C06 clauses for cancelled transfers
    for sig, msg in o_mpu(w, tr) + o_fs(w, tr):
        out.append(('C07:cleanup:' + sig, msg))
    # shutdown(cancel) / with-exit must have returned
    if script.startswith('with') or script in ('wait', 'shutdown'):
        if not tr.ev('user.shutdown_returned'):
            out.append(('C07:shutdown-did-not-return', 'user thread never returned from shutdown / with-exit'))
    return out


def o_fs(w, tr):
    """C06 end-state clauses (the at-every-instant clause is checked by the fs monitor)."""
    out = []
    if w.sched.outcome == 'deadlock':
        # nothing can run any more: a cancelled / failed download that has not cleaned up by now never will
        ended = tr.ev('inject') or w.all_injected()
        temps = sorted(n for n in w.final_listing if '.' in n and n.startswith('dst'))
        stuck = [i['idx'] for i in w.transfers if i['op'] == 'download' and i['t'].get('dst', 'path') == 'path' and i['idx'] not in w.outcomes]
        if ended and temps and stuck:
            out.append(('C06:temp-file-left-forever',
                        f'downloads {stuck} were cancelled / failed, no thread can make progress any more, and {temps} are still on disk'))
        for v in w.sched.user.get('fs_monitor_violations', [])[:1]:
            out.append(v)
        return out
    if w.sched.outcome != 'ok' or not w.script_done:
        return out
    expected_names = set()
    for info in w.transfers:
        if info['op'] == 'upload' and info['t'].get('src', 'path') == 'path':
            expected_names.add(f'src{info["idx"]}')
        if info['op'] == 'download' and info['t'].get('dst', 'path') == 'path':
            idx = info['idx']
            oc = w.outcomes.get(idx)
            prev = info['t'].get('preexisting')
            prev_b = prev.encode() if isinstance(prev, str) else prev
            name = info.get('name', f'dst{idx}')
            try:
                with open(info['path'], 'rb') as f:
                    cur = f.read()
            except FileNotFoundError:
                cur = None
            if oc and oc[0] == 'ok':
                expected_names.add(name)
            else:
                renamed = any(e[3].get('to') == name for e in tr.ev('fs.renamed'))
                cancelled = oc and oc[0] == 'exc' and is_cancel_exc(oc[1])
                if cur is not None:
                    expected_names.add(name)
                if cur != prev_b:
                    if cur == info['expected'] and renamed and (cancelled or was_cancel_injected(tr)):
                        pass       # cancel raced the final rename
                    else:
                        out.append(('C06:destination-changed-after-failure',
                                    f'transfer {idx} ended with {(oc[1] if oc else None)!r}; destination holds {_show(cur)}, previous content {_show(prev_b)}'))
    listing = set(w.final_listing)
    extra = listing - expected_names
    if extra:
        out.append(('C06:temp-file-left', f'directory holds {sorted(listing)}, expected {sorted(expected_names)}'))
    for v in w.sched.user.get('fs_monitor_violations', [])[:1]:
        out.append(v)
    return out


def fs_monitor(w):
    """on_point callback: the destination path never holds partial content."""
    v = w.sched.user.setdefault('fs_monitor_violations', [])
    if v:
        return
    for info in w.transfers:
        if info['op'] != 'download' or info['t'].get('dst', 'path') != 'path':
            continue
        p = info['path']
        try:
            with open(p, 'rb') as f:
                cur = f.read()
        except FileNotFoundError:
            cur = None
        prev = info['t'].get('preexisting')
        prev_b = prev.encode() if isinstance(prev, str) else prev
        if cur != prev_b and cur != info['expected']:
            v.append(('C06:partial-content-visible',
                      f'at step {w.sched.step} destination of transfer {info["idx"]} holds {_show(cur)} '
                      f'(previous {_show(prev_b)}, object {_show(info["expected"])})'))
        w.sched.user['fs_monitor_points'] = w.sched.user.get('fs_monitor_points', 0) + 1


def o_bandwidth(w, tr):
    """C13 wiring: every data path of a manager with max_bandwidth is throttled by one bucket."""
    out = []
    cfg = w.manager.config if w.manager else None
    if cfg is None or cfg.max_bandwidth is None or w.sched.outcome != 'ok':
        return out
    m = float(cfg.max_bandwidth)
    thr = w.scn.get('bw_threshold') or 256 * 1024
    # "a read of a failed or cancelled transfer raises that transfer's error instead of waiting on":
    # a throttling sleep of a task of transfer i that begins after a read which itself came after
    # the moment transfer i was recorded as failed/cancelled
    term = {}
    for e in tr.ev('field'):
        if e[3]['name'] == '_status' and e[3]['cls'] == 'TransferCoordinator' and e[3]['value'] in ('failed', 'cancelled'):
            term.setdefault(e[3]['oid'], e[0])
    if term:
        running = {}          # thread -> (transfer idx, start step)
        last_read = {}
        for e in w.sched.log:
            step, tid, kind, pl = e[0], e[1], e[2], e[3]
            if kind == 'ex.start' and pl['task'].startswith('t') and '.' in pl['task']:
                try:
                    running[tid] = int(pl['task'][1:pl['task'].index('.')])
                except ValueError:
                    running.pop(tid, None)
            elif kind == 'ex.end':
                running.pop(tid, None)
                last_read.pop(tid, None)
            elif kind == 'bw.read':
                last_read[tid] = step
            elif kind == 'sleep' and tid in running and running[tid] in term:
                t0 = term[running[tid]]
                if last_read.get(tid, -1) > t0 + 1:
                    out.append(('C13:wiring:waited-after-failure',
                                f'a task of transfer {running[tid]} went to sleep {pl["d"]:.3f}s for the bandwidth limit at step {step}, '
                                f'in a read that started after the transfer was recorded as failed/cancelled at step {t0}'))
                    break
    # "traffic whose demand stays below the limit is never delayed": in scenarios whose fake socket
    # takes the request bodies at a fraction of the limit (send_think), the limiter never sleeps
    if w.scn.get('send_think'):
        for e in w.sched.log:
            if e[2] == 'sleep' and e[3].get('label') is None:
                out.append(('C13:wiring:delayed-below-limit',
                            f'at step {e[0]} (t={e[4]:.3f}) thread {e[1]} was put to sleep {e[3]["d"]:.3f}s by the bandwidth limiter although '
                            f'the wire demand of the scenario stays below max_bandwidth={m}'))
                break
    moves = []
    for kind in ('body.read', 'stream.read'):
        for e in tr.ev(kind):
            if e[3].get('n'):
                moves.append((e[4], e[3]['n'], e[3].get('call')))
    if not moves:
        return out
    callmap = {c['id']: c for c in tr.calls}
    # bytes read while progress/limiting is suppressed (signing) are not transferred: only 's' phase reads are logged
    nreq = len({c for _, _, c in moves})
    maxread = max(n for _, n, _ in moves)
    B = nreq * (2 * thr + maxread)
    times = sorted({t for t, _, _ in moves})
    w.sched.user['max_bw_span'] = times[-1] - times[0]
    for a in range(len(times)):
        for b in range(a, len(times)):
            t1, t2 = times[a], times[b]
            tot = sum(n for t, n, _ in moves if (t1 < t <= t2) or (a == b and t == t1))
            lim = 1.25 * m * (t2 - t1) + B
            if tot > lim + 1e-9:
                ops = sorted({callmap[c]['op'] for t, n, c in moves if t1 <= t <= t2 and c in callmap})
                out.append(('C13:wiring:rate-exceeded',
                            f'{tot} bytes moved in [{t1:.3f},{t2:.3f}] > 1.25*{m}*T + {B} = {lim:.2f} ({ops})'))
                return out
    return out


ALL_ORACLES = [o_termination, o_exact, o_streaming_order, o_failure_truth, o_mpu,
               o_callbacks, o_progress, o_limits, o_memory, o_semaphores, o_barrier, o_isolation, o_bandwidth, o_outcome_stable, o_state_forward,
               o_cancel, o_fs]


def signature(w, tr):
    outs = tuple((i, o[0] if o[0] == 'ok' else type(o[1]).__name__) for i, o in sorted(w.outcomes.items()))
    order = tuple((c['op'], c['kwargs'].get('PartNumber'), c['kwargs'].get('Range'), c['outcome']) for c in tr.calls)
    ends = tuple(sorted((c['end'] or 0, c['id']) for c in tr.calls))
    endorder = tuple(i for _, i in ends)
    return explore.sig_hash((w.sched.outcome, outs, order, endorder))


def run_exec(scn, prefix, scratch, oracles=ALL_ORACLES, want=None, monitor_fs=False):
    w = harness.run_scenario(scn, prefix, scratch=scratch,
                             on_point=fs_monitor if monitor_fs else None)
    tr = Tr(w)
    x = explore.Exec()
    s = w.sched
    x.decisions = [d.as_tuple() for d in s.decisions]
    x.outcome = s.outcome
    x.detail = s.outcome_detail
    x.steps = s.step
    x.extra['max_threads'] = s.max_threads
    seen = set()
    for o in oracles:
        try:
            res = o(w, tr)
        except detsched.HarnessError:
            raise
        for sig, msg in res:
            if want is not None and not sig.startswith(want):
                continue
            if sig in seen:
                continue
            seen.add(sig)
            x.violations.append({'sig': sig, 'msg': msg})
    x.signature = signature(w, tr)
    x.extra['user'] = {k: v for k, v in s.user.items() if k.startswith('max_')}
    x.extra['n_injected'] = len(w.all_injected())
    inj = tr.ev('inject')
    x.extra['inject_effective'] = int(any(
        (e[3].get('done_before') is False) or (isinstance(e[3].get('done_before'), list) and not all(e[3]['done_before']))
        for e in inj))
    x.extra['inject_ran'] = int(bool(inj))
    x.sample = {'outcomes': {i: (o[0] if o[0] == 'ok' else repr(o[1])) for i, o in w.outcomes.items()},
                's3_calls': [c['op'] for c in tr.calls][:30]}
    return x


# ---------------------------------------------------------------------------
# job runner: explore one scenario to a bound (runs in pool workers)
# ---------------------------------------------------------------------------

_SCRATCH = None


def _scratch():
    global _SCRATCH
    if _SCRATCH is None:
        _SCRATCH = ScratchDir('vtw')
        import atexit
        atexit.register(_SCRATCH.cleanup)
    return _SCRATCH


def explore_job(job):
    """job: dict(scn, bound, want, forced_cost, max_execs, monitor_fs, deadline, seed)"""
    want = job.get('want')
    sd = _scratch()
    mon = job.get('monitor_fs', False)
    if 'scns' in job:
        # sweep: each scenario explored to the (small) bound, stats merged
        tot = explore.Stats()
        viol = []
        for scn in job['scns']:
            st = explore.explore(lambda p: run_exec(scn, p, sd, want=want, monitor_fs=mon),
                                 job['bound'], forced_cost=job.get('forced_cost', 1),
                                 max_execs=job.get('max_execs'), keep_samples=1)
            tot.merge(st)
            for ch, v in st.violations:
                viol.append({'sig': v['sig'], 'msg': v['msg'] + f' | scenario={_scn_brief(scn)} choices={ch}',
                             'replay': {'kind': 'manager', 'scn': scn, 'choices': ch, 'want': want,
                                        'monitor_fs': mon}})
            if len(viol) >= 5:
                break
        return {'name': job.get('name', ''), 'stats': tot, 'violations': viol}
    scn = job['scn']
    st = explore.explore(lambda p: run_exec(scn, p, sd, want=want, monitor_fs=mon),
                         job['bound'], forced_cost=job.get('forced_cost', 1),
                         max_execs=job.get('max_execs'), seed=job.get('seed', 0),
                         deadline=job.get('deadline'), root_prefix=job.get('root_prefix', ()),
                         root_cost=job.get('root_cost'), root_only=job.get('root_only', False))
    if job.get('root_only'):
        kids = explore.first_level(st.root_exec, job['bound'], job.get('forced_cost', 1))
        st.root_exec = None
        return {'name': job.get('name', ''), 'stats': st, 'violations': [], 'kids': kids}
    viol = []
    for ch, v in st.violations:
        viol.append({'sig': v['sig'], 'msg': v['msg'] + f' | scenario={_scn_brief(scn)} choices={ch}',
                     'replay': {'kind': 'manager', 'scn': scn, 'choices': ch, 'want': want,
                                'monitor_fs': mon}})
    for smp in st.samples:
        smp['scenario'] = job.get('name', '')
        smp['transfers'] = scn.get('transfers')
        smp['budget'] = job['bound']
    return {'name': job.get('name', ''), 'stats': st, 'violations': viol}


def _scn_brief(scn):
    return {k: v for k, v in scn.items() if k in ('config', 'transfers', 'script', 'inject', 'faults', 'objects', 'rcc')}


def run_catalogue(jobs, tier, prop, extra_rule=''):
    """Runs exploration jobs in parallel, merges stats into evidence coverage."""
    t0 = time.time()
    jobs = split_jobs(jobs)
    res = explore.run_jobs(explore_job, jobs)
    res, jobs = regroup(res, jobs)
    tot = explore.Stats()
    viol = []
    per = {}
    for r, j in zip(res, jobs):
        sc = j.get('scn')
        if sc is not None and sc.get('inject') and not r['stats'].violations:
            if not r['stats'].counters.get('inject_ran'):
                raise detsched.HarnessError(f'vacuous job: injection never ran in {j["name"]}')
        tot.merge(r['stats'])
        viol.extend(r['violations'])
        d = r['stats'].to_dict()
        per[r['name']] = {'executions': d['executions'], 'distinct_outcomes': d['distinct_outcomes'],
                          'outcomes': d['outcomes'], 'caps_hit': d['caps_hit']}
    cov = {
        'states': tot.states, 'transitions': tot.transitions,
        'traces_validated_against_impl': tot.executions,
        'evaluations': tot.executions, 'executions': tot.executions,
        'distinct_nontrivial': len(tot.signatures), 'distinct_outcomes': len(tot.signatures),
        'rule': 'every choice sequence (thread schedule + environment answers) within the deviation bound of each '
                'scenario is executed on the real code; distinct = distinct (outcomes, S3 call order, completion order) signatures. ' + extra_rule,
        'samples': tot.samples[:3],
        'max_threads': tot.max_threads,
        'caps_hit': tot.caps_hit,
        'exhaustive': not tot.caps_hit,
        'scenarios': len(jobs),
        'per_scenario': per if len(per) <= 60 else {k: per[k] for k in list(per)[:60]},
        'known': tot.known,
        'deviation_budgets_used': sorted({json.dumps(j['bound'], sort_keys=True) for j in jobs}),
        'executions_with_injected_fault': tot.counters.get('n_injected', 0),
        'executions_with_cancel_before_done': tot.counters.get('inject_effective', 0),
        'maxima_observed': tot.maxima,
    }
    return cov, viol


def _budget(bound):
    if isinstance(bound, dict):
        return sum(bound.values())
    return bound


def split_jobs(jobs):
    """Split big jobs by schedule prefix (one sub-job per first-level child) so
    that a single scenario is explored on all cores."""
    big = [j for j in jobs if 'scn' in j and _budget(j['bound']) >= 2 and not j.get('nosplit')]
    if not big:
        return jobs
    roots = explore.run_jobs(explore_job, [dict(j, root_only=True) for j in big])
    out = [j for j in jobs if j not in big]
    for j, r in zip(big, roots):
        # the root execution itself (children of the root are the sub-jobs)
        out.append(dict(j, bound={'sched': 0, 'env': 0, 'inject': 0}, forced_cost=1, _group=j['name'], _root=True))
        kids = r['kids']
        cap = j.get('max_execs')
        for pre, cost in kids:
            out.append(dict(j, root_prefix=pre, root_cost=cost, _group=j['name']))
    # biggest budgets first
    out.sort(key=lambda j: (-_budget(j['bound']) if 'scn' in j else 0, -len(j.get('root_prefix', ()))))
    return out


def regroup(res, jobs):
    groups = {}
    order = []
    for r, j in zip(res, jobs):
        g = j.get('_group')
        if g is None:
            order.append((r, j))
            continue
        if g not in groups:
            groups[g] = ({'name': g, 'stats': explore.Stats(), 'violations': []}, j)
            order.append(groups[g])
        groups[g][0]['stats'].merge(r['stats'])
        groups[g][0]['violations'].extend(r['violations'])
    return [o[0] for o in order], [o[1] for o in order]


def replay_manager(data):
    sd = _scratch()
    x = run_exec(data['scn'], data['choices'], sd, want=data.get('want'),
                 monitor_fs=data.get('monitor_fs', False))
    return {'outcome': x.outcome, 'detail': x.detail, 'violations': x.violations,
            'sample': x.sample, 'digest': repr(x.decisions) + str(x.signature)}


# placeholders used by C12 / C16 until the e2e catalogues below are wired
def semaphore_quiescence(tier, seed):
    from . import catalog
    jobs = catalog.jobs_for('C12', tier, seed)
    cov, viol = run_catalogue(jobs, tier, 'C12')
    return {'coverage': cov, 'violations': viol}


def stream_download_e2e(tier, seed):
    from . import catalog
    jobs = catalog.jobs_for('C16', tier, seed)
    cov, viol = run_catalogue(jobs, tier, 'C16')
    return {'coverage': cov, 'violations': viol}


ASSUMPTIONS = [
    'environment models: FakeS3 + validating fake client (parameters validated by botocore\'s ParamValidator against the installed S3 model), DetExecutor model of ThreadPoolExecutor, controlled Lock/Condition/Event/Semaphore',
    'upload bodies are driven by the body protocol recorded from real botocore (tell/read*/seek(0) while progress is suppressed, then read*; retry = seek(0) + the same again)',
    'KeyboardInterrupt is delivered only at blocking waits of the user thread',
    'set iteration order of id-hashed objects fixed to creation order',
]


def body_protocol_conformance(cov):
    """Re-record the request-body protocol from the real botocore client and compare
    it with what the fake client does; a mismatch means the environment model no
    longer matches the installed botocore: harness error, never a verdict."""
    from ..env import botoproto
    n, mism, protos = botoproto.conformance()
    cov['body_protocols_recorded_from_botocore'] = n
    cov['body_protocol_sample'] = {k: [list(x) for x in v] for k, v in list(protos.items())[:2]}
    if mism:
        raise detsched.HarnessError(f'fake client body protocol differs from real botocore: {mism[0]}')
    cov['traces_validated_against_impl'] = cov.get('traces_validated_against_impl', 0) + n
