"""Shared manager-scenario runner and trace oracles (filled in below)."""


def semaphore_quiescence(tier, seed):
    return {'coverage': {}, 'violations': []}
