"""The other download/upload front-ends of the package: legacy `S3Transfer` and the
process-pool downloader's submitter + worker loop (in-process).  Sequential mode
(one canonical schedule, exhaustive over inputs and faults) for both; the legacy
multipart classes additionally in *threaded* mode: their `threading`, `queue` and
`concurrent.futures` bindings are replaced by the scheduler's (the ShutdownQueue
class is re-based onto the controlled queue), so part workers, IO thread and the
waiting coordinator are explored like the manager's threads.  Thread interleavings
of the process pool are explored in C19.
"""
import concurrent.futures
import functools
import itertools
import os
import random

import s3transfer as legacy
import s3transfer.processpool as pp

from .. import harness, explore, detsched, statereset
from ..detsched import Sched
from ..env.s3 import FakeS3, FakeClient, FaultPlan, InjectedOSError
from ..env.fs import ScratchDir, FaultyFile
from ..harness import BUCKET, payload

harness.install()


class _SeqFuture(concurrent.futures.Future):
    """creation-sequence hash: sets of these futures (concurrent.futures.as_completed) iterate deterministically"""

    def __hash__(self):
        return self._vt_h

    def __eq__(self, other):
        return self is other


class InlineExecutor(concurrent.futures.Executor):
    def __init__(self, max_workers=None):
        pass

    _n = 0

    def submit(self, fn, *args, **kwargs):
        f = _SeqFuture()
        InlineExecutor._n += 1
        f._vt_h = InlineExecutor._n
        try:
            f.set_result(fn(*args, **kwargs))
        except BaseException as e:  # noqa
            if type(e).__name__ == 'AbortExecution':
                raise
            f.set_exception(e)
        return f

    def shutdown(self, wait=True, **kw):
        pass


_RealMU, _RealMD = legacy.MultipartUploader, legacy.MultipartDownloader


class _NS:
    def __init__(self, **kw):
        self.__dict__.update(kw)


import queue as _queue  # noqa: E402

_REAL_BINDINGS = (legacy.threading, legacy.queue, legacy.concurrent, legacy.ShutdownQueue.__bases__)


def _bind_legacy_threads(on):
    """threaded mode: the legacy module's threads, queue and concurrent.futures run under the scheduler"""
    if on:
        legacy.threading = detsched.SHIM
        legacy.queue = _NS(Queue=detsched.DetLegacyQueue, Empty=_queue.Empty, Full=_queue.Full)
        legacy.concurrent = _NS(futures=_NS(
            wait=detsched.det_wait, FIRST_EXCEPTION=detsched.FIRST_EXCEPTION, FIRST_COMPLETED=detsched.FIRST_COMPLETED,
            ALL_COMPLETED=detsched.ALL_COMPLETED, ThreadPoolExecutor=detsched.DetExecutor,
            CancelledError=concurrent.futures.CancelledError, TimeoutError=concurrent.futures.TimeoutError))
        legacy.ShutdownQueue.__bases__ = (detsched.DetLegacyQueue,)
    else:
        legacy.threading, legacy.queue, legacy.concurrent = _REAL_BINDINGS[:3]
        legacy.ShutdownQueue.__bases__ = _REAL_BINDINGS[3]


class FaultyLegacyOSUtils(legacy.OSUtils):
    def __init__(self, sched, fault_sites=()):
        self.sched = sched
        self.fault_sites = tuple(fault_sites)
        self.injected = []
        self.writers = {}
        self.max_writers = 0
        self.only_prefix = None

    fault_on = harness.FaultyOSUtils.fault_on
    note_injected = harness.FaultyOSUtils.note_injected
    _site = harness.FaultyOSUtils._site

    def get_file_size(self, filename):
        return super().get_file_size(filename)

    def open(self, filename, mode):
        self._site('open', filename, mode=mode)
        return FaultyFile(self, super().open(filename, mode), filename, mode)

    def remove_file(self, filename):
        self.sched.emit('fs.remove', file=os.path.basename(filename))
        return super().remove_file(filename)

    def rename_file(self, current_filename, new_filename):
        self._site('rename', current_filename, to=os.path.basename(new_filename))
        r = super().rename_file(current_filename, new_filename)
        self.sched.emit('fs.renamed', file=os.path.basename(current_filename), to=os.path.basename(new_filename))
        return r


class ListQueue:
    def __init__(self, *a):
        self.items = []

    def put(self, x):
        self.items.append(x)

    def get(self):
        return self.items.pop(0)


class _Factory:
    def __init__(self, client):
        self.client = client

    def create_client(self):
        return self.client


def run_frontend(scn, prefix=(), scratch=None, monitor=None):
    """One sequential execution of a legacy / process-pool transfer.

    scn: frontend ('legacy'|'ppool'), op ('download'|'upload'), size, t, c,
         attempts, faults{sites..}, stream_pattern, preexisting, extra, expected_size
    returns dict(outcome, exc, calls, dest, listing, injected, decisions, log)
    """
    own = scratch is None
    if own:
        scratch = ScratchDir('fe')
    else:
        scratch.reset()
    random.seed(scn.get('seed', 0) * 7919 + 5)
    InlineExecutor._n = 0
    statereset.register(pp)
    statereset.restore()
    threaded = bool(scn.get('threaded'))
    s = Sched(prefix=prefix, horizon=20000) if threaded else Sched(prefix=prefix)
    if threaded:
        s.nopreempt = detsched.COARSE_SKIP
    R = {}
    f = scn.get('faults') or {}
    plan = FaultPlan(sites=f.get('sites', ()), retryable_kinds=tuple(f.get('retryable_kinds', (0,))),
                     short_sizes=tuple(f.get('short_sizes', (1,))))
    fs_sites = [x for x in f.get('sites', ()) if x.startswith('fs:')]
    size = scn['size']
    data = payload(size, scn.get('seed', 0), 3)
    dst = os.path.join(scratch.path, 'dst')
    src = os.path.join(scratch.path, 'src')
    pre = scn.get('preexisting')
    if pre is not None:
        with open(dst, 'wb') as fh:
            fh.write(pre.encode())
    if monitor is not None:
        s.on_point = lambda sch: monitor(dst, pre, data, sch)

    def main():
        s3 = FakeS3(s)
        client = FakeClient(s3, s, plan=plan, stream_pattern=scn.get('stream_pattern', 'full'),
                            rcc=scn.get('rcc', 'when_required'))
        R['s3'], R['client'] = s3, client
        extra = dict(scn.get('extra') or {})
        try:
            if scn['frontend'] == 'legacy':
                cfg = legacy.TransferConfig(multipart_threshold=scn['t'], multipart_chunksize=scn['c'],
                                            num_download_attempts=scn.get('attempts', 2),
                                            max_concurrency=scn.get('conc', 2), max_io_queue=scn.get('ioq', 100))
                osu = FaultyLegacyOSUtils(s, fs_sites)
                R['osutil'] = osu
                ex_cls = detsched.DetExecutor if threaded else InlineExecutor
                legacy.MultipartUploader = functools.partial(_RealMU, executor_cls=ex_cls)
                legacy.MultipartDownloader = functools.partial(_RealMD, executor_cls=ex_cls)
                tr = legacy.S3Transfer(client, cfg, osu)
                prog = []
                R['progress'] = prog
                if scn['op'] == 'download':
                    s3.put(BUCKET, 'k', data)
                    tr.download_file(BUCKET, 'k', dst, extra_args=extra or None, callback=prog.append)
                else:
                    with open(src, 'wb') as fh:
                        fh.write(data)
                    tr.upload_file(src, BUCKET, 'k', callback=prog.append, extra_args=extra or None)
            else:
                s3.put(BUCKET, 'k', data)
                osu = harness.FaultyOSUtils(s, fs_sites)
                R['osutil'] = osu
                cfg = pp.ProcessTransferConfig(multipart_threshold=scn['t'], multipart_chunksize=scn['c'])
                mon = pp.TransferMonitor()
                rq, wq = ListQueue(), ListQueue()
                sub = pp.GetObjectSubmitter(cfg, _Factory(client), mon, osu, rq, wq)
                sub._client = client
                wrk = pp.GetObjectWorker(wq, _Factory(client), mon, osu)
                wrk._client = client
                wrk._MAX_ATTEMPTS = scn.get('attempts', 2)
                wrk._IO_CHUNKSIZE = scn.get('io', 2)
                tid = mon.notify_new_transfer()
                rq.put(pp.DownloadFileRequest(tid, BUCKET, 'k', dst, extra, scn.get('expected_size')))
                rq.put(pp.SHUTDOWN_SIGNAL)
                sub._do_run()
                wq.put(pp.SHUTDOWN_SIGNAL)
                wrk._do_run()
                R['done'] = mon.is_done(tid)
                fut = pp.ProcessPoolTransferFuture(mon, pp.ProcessPoolTransferMeta(tid, None))
                if not R['done']:
                    raise detsched.SeqDeadlock('process-pool transfer never became done')
                fut.result()
            R['outcome'] = 'ok'
        except detsched.AbortExecution:
            raise
        except BaseException as e:  # noqa
            R['outcome'] = 'exc'
            R['exc'] = e
        finally:
            legacy.MultipartUploader, legacy.MultipartDownloader = _RealMU, _RealMD
    try:
        if threaded:
            _bind_legacy_threads(True)
            try:
                s.run(main)
            finally:
                _bind_legacy_threads(False)
            if s.outcome not in ('ok', 'deadlock'):
                raise detsched.HarnessError(f'legacy threaded run ended with {s.outcome}: {s.outcome_detail}')
            crashed = [t for t in s.threads if t.exc is not None]
            if crashed and s.outcome == 'ok':
                raise detsched.HarnessError(f'legacy threaded run: thread {crashed[0].name} crashed: {crashed[0].exc!r}')
        else:
            s.run_inline(main)
        if s.outcome == 'deadlock':
            R['outcome'] = 'deadlock'
            R['exc'] = s.outcome_detail
        try:
            with open(dst, 'rb') as fh:
                R['dest'] = fh.read()
        except FileNotFoundError:
            R['dest'] = None
        R['listing'] = scratch.listing()
    finally:
        if own:
            scratch.cleanup()
    R['expected'] = data
    R['decisions'] = [d.as_tuple() for d in s.decisions]
    R['log'] = s.log
    R['steps'] = s.step
    inj = list(R['client'].injected) if 'client' in R else []
    if 'osutil' in R:
        inj += R['osutil'].injected
    R['injected'] = inj
    R['calls'] = R['s3'].calls if 's3' in R else []
    R['object'] = R['s3'].objects.get((BUCKET, 'k')) if 's3' in R else None
    return R


# ---------------------------------------------------------------------------
# oracles for the front-ends (same clauses as common.py, on the simpler record)
# ---------------------------------------------------------------------------

def judge(scn, R, want):
    out = []
    fe, op = scn['frontend'], scn['op']
    inj = R['injected']
    pre = scn.get('preexisting')
    pre_b = pre.encode() if pre is not None else None
    fatal = [f for f in inj if not f['retryable']]
    attempts = scn.get('attempts', 2)
    if R['outcome'] == 'deadlock':
        # (legacy, threaded: the hang its own source comment admits - a failed IO thread leaves
        #  producers blocked on a full queue; no listed property speaks about the legacy classes'
        #  termination, and the end-state clauses below presuppose that the call returned)
        out.append((f'C19:{fe}:never-done', str(R.get('exc'))))
        return [(s_, m) for s_, m in out if want is None or s_.startswith(want)]
    if op == 'download':
        if R['outcome'] == 'ok':
            if R['dest'] != R['expected']:
                out.append((f'C02:{fe}:wrong-bytes', f'download succeeded but file holds {R["dest"]!r}, object {R["expected"]!r}'))
            if fatal:
                out.append((f'C03:{fe}:success-despite-fault', f'{fatal[0]["label"]} injected but download succeeded'))
        elif not inj and R['outcome'] != 'ok':
            out.append((f'C02:{fe}:fault-free-failure', f'{R.get("exc")!r}'))
        # attempts per range
        per = {}
        for c in R['calls']:
            if c['op'] == 'GetObject':
                per[c['kwargs'].get('Range')] = per.get(c['kwargs'].get('Range'), 0) + 1
        for r, n in per.items():
            if n > attempts:
                out.append((f'C03:{fe}:too-many-attempts', f'{n} GetObject for range {r}, budget {attempts}'))
        # C06 end state
        if R['dest'] is not None and R['dest'] != R['expected'] and R['dest'] != pre_b:
            out.append((f'C06:{fe}:partial-content-published',
                        f'after the call (outcome {R["outcome"]}) the destination holds {R["dest"]!r}: neither the previous content {pre_b!r} nor the object {R["expected"]!r}'))
        names = set(R['listing'])
        allowed = {'dst'} if (R['outcome'] == 'ok' or pre is not None) else set()
        if R['outcome'] != 'ok' and R['dest'] is not None and pre is None:
            renamed = any(e[2] == 'fs.renamed' for e in R['log'])
            out.append((f'C06:{fe}:destination-after-failure', f'download failed with {R.get("exc")!r} but destination exists ({R["dest"]!r}); renamed={renamed}'))
        if R['outcome'] != 'ok' and pre is not None and R['dest'] != pre_b:
            out.append((f'C06:{fe}:destination-changed-after-failure', f'failed with {R.get("exc")!r}; destination {R["dest"]!r}, previous {pre_b!r}'))
        extra = names - allowed - {'src'}
        if extra:
            out.append((f'C06:{fe}:temp-file-left', f'directory holds {sorted(names)} after outcome {R["outcome"]} ({R.get("exc")!r})'))
    else:
        if R['outcome'] == 'ok':
            if R['object'] != R['expected']:
                out.append((f'C01:{fe}:wrong-object', f'upload succeeded but object is {R["object"]!r}, source {R["expected"]!r}'))
            if fatal:
                out.append((f'C03:{fe}:success-despite-fault', f'{fatal[0]["label"]} injected but upload succeeded'))
        elif not inj:
            out.append((f'C01:{fe}:fault-free-failure', f'{R.get("exc")!r}'))
        # C05 for the legacy uploader
        for uid, u in R['s3'].uploads.items():
            create = next((c for c in R['calls'] if c['op'] == 'CreateMultipartUpload' and c.get('upload') == uid), None)
            if create is None or create['outcome'] != 'ok':
                continue
            aborts = [c for c in R['calls'] if c['op'] == 'AbortMultipartUpload' and c['kwargs'].get('UploadId') == uid]
            if R['outcome'] == 'ok':
                if u['completes'] != 1 or aborts:
                    out.append((f'C05:{fe}:success-without-single-complete', f'{uid}: completes={u["completes"]} aborts={len(aborts)}'))
            elif not aborts:
                out.append((f'C05:{fe}:orphaned-upload', f'{uid}: upload failed with {R.get("exc")!r} but no abort was issued'))
    mon = R.get('fs_monitor')
    return [(s_, m) for s_, m in out if want is None or s_.startswith(want)]


def fs_monitor_factory(R):
    def mon(dst, pre, data, sch):
        if R.get('fs_monitor'):
            return
        try:
            with open(dst, 'rb') as fh:
                cur = fh.read()
        except FileNotFoundError:
            cur = None
        pre_b = pre.encode() if pre is not None else None
        R['points'] = R.get('points', 0) + 1
        if cur != pre_b and cur != data:
            R['fs_monitor'] = f'at step {sch.step} destination holds {cur!r} (previous {pre_b!r}, object {data!r})'
    return mon


_SD = None


def _sd():
    global _SD
    if _SD is None:
        _SD = ScratchDir('few')
        import atexit
        atexit.register(_SD.cleanup)
    return _SD


def fe_exec(scn, prefix, want, monitor_fs=False):
    M = {}
    R = run_frontend(scn, prefix, scratch=_sd(), monitor=fs_monitor_factory(M) if monitor_fs else None)
    x = explore.Exec()
    x.decisions = R['decisions']
    x.outcome = R['outcome'] if R['outcome'] in ('ok', 'deadlock') else 'ok'
    x.steps = R['steps']
    errs = judge(scn, R, want)
    if M.get('fs_monitor') and (want is None or 'C06'.startswith(want) or want == 'C06'):
        errs.append((f'C06:{scn["frontend"]}:partial-content-visible', M['fs_monitor']))
    seen = set()
    for sig, msg in errs:
        if sig not in seen:
            seen.add(sig)
            x.violations.append({'sig': sig, 'msg': msg})
    x.signature = explore.sig_hash((R['outcome'], type(R.get('exc')).__name__, tuple((c['op'], c['kwargs'].get('Range'), c['outcome']) for c in R['calls'])))
    x.extra['n_injected'] = len(R['injected'])
    x.sample = {'frontend': scn['frontend'], 'op': scn['op'], 'size': scn['size'], 'outcome': R['outcome'],
                'calls': [(c['op'], c['kwargs'].get('Range')) for c in R['calls']][:10]}
    return x


def fe_job(job):
    want = job.get('want')
    tot = explore.Stats()
    viol = []
    for scn in job['scns']:
        st = explore.explore(lambda p: fe_exec(scn, p, want, job.get('monitor_fs', False)), job['bound'],
                             forced_cost=1, max_execs=job.get('max_execs'), keep_samples=1)
        tot.merge(st)
        for ch, v in st.violations:
            viol.append({'sig': v['sig'], 'msg': v['msg'] + f' | frontend scenario={scn} choices={ch}',
                         'replay': {'kind': 'frontend', 'scn': scn, 'choices': ch, 'want': want,
                                    'monitor_fs': job.get('monitor_fs', False)}})
        if len(viol) >= 5:
            break
    return {'name': job['name'], 'stats': tot, 'violations': viol}


def replay(data):
    x = fe_exec(data['scn'], data['choices'], data.get('want'), data.get('monitor_fs', False))
    return {'violations': x.violations, 'sample': x.sample, 'digest': repr(x.decisions) + str(x.signature)}


def download_jobs(tier, want, faults=True, monitor_fs=False, pre=(None,)):
    """sweep + fault jobs for legacy and process-pool downloads"""
    jobs = []
    sizes = range(0, 8) if tier == 'quick' else range(0, 12)
    ts = (1, 3, 5) if tier == 'quick' else (1, 2, 3, 4, 6)
    cs = (1, 2, 3) if tier == 'quick' else (1, 2, 3, 5)
    for fe in ('legacy', 'ppool'):
        for pat in ('full', 'one', 'alt'):
            # (the process-pool downloader cannot download an empty object on Linux:
            #  posix_fallocate(fd, 0, 0) is EINVAL - the transfer fails cleanly, which no
            #  listed property forbids; size 0 is therefore left out for that front-end)
            scns = [dict(frontend=fe, op='download', size=s_, t=t_, c=c_, stream_pattern=pat, io=2)
                    for s_, t_, c_ in itertools.product(sizes, ts, cs) if not (fe == 'ppool' and s_ == 0)]
            jobs.append({'name': f'{fe} download sweep pattern={pat}', 'scns': scns, 'bound': 0, 'want': want,
                         'monitor_fs': monitor_fs})
        if faults:
            for p_ in pre:
                scns = []
                for size, t_, c_ in ((5, 4, 2), (3, 4, 2), (6, 3, 3), (0, 4, 2), (5, 1, 2)):
                    if fe == 'ppool' and size == 0:
                        continue
                    for attempts in (2, 3):
                        scns.append(dict(frontend=fe, op='download', size=size, t=t_, c=c_, attempts=attempts, io=2,
                                         preexisting=p_, expected_size=None,
                                         faults={'sites': ['s3:', 'stream:retryable', 'stream:fatal', 'stream:short',
                                                           'fs:open', 'fs:write', 'fs:close', 'fs:rename', 'fs:allocate', 'fs:seek']}))
                jobs.append({'name': f'{fe} download faults pre={p_}', 'scns': scns, 'bound': 1 if tier == 'quick' else 2,
                             'want': want, 'monitor_fs': monitor_fs, 'max_execs': 200000})
                jobs.append({'name': f'{fe} download retryable x2 pre={p_}', 'bound': 2 if tier == 'quick' else 3, 'want': want,
                             'monitor_fs': monitor_fs, 'max_execs': 200000,
                             'scns': [dict(sc, faults={'sites': ['stream:retryable', 'stream:short']}) for sc in scns]})
    # the legacy ranged downloader with its real threads (part workers, IO thread, coordinator
    # waiting on both) under the scheduler: schedules x one fault
    q = tier == 'quick'
    for p_ in pre:
        for ioq in (1, 100):
            scns = [dict(frontend='legacy', op='download', size=size, t=t_, c=c_, attempts=2, io=2, threaded=True,
                         ioq=ioq, conc=conc, preexisting=p_)
                    for size, t_, c_, conc in ((5, 4, 2, 2), (6, 3, 3, 2), (5, 1, 2, 1))]
            jobs.append({'name': f'legacy threaded download plain ioq={ioq} pre={p_}', 'scns': scns,
                         'bound': {'sched': 2}, 'want': want, 'monitor_fs': monitor_fs, 'max_execs': 300000})
            if faults:
                fs_ = {'sites': ['s3:', 'stream:retryable', 'stream:fatal', 'fs:open', 'fs:write', 'fs:close', 'fs:rename', 'fs:seek']}
                jobs.append({'name': f'legacy threaded download fault ioq={ioq} pre={p_}',
                             'scns': [dict(sc, faults=fs_) for sc in scns],
                             'bound': {'sched': 1, 'env': 1} if (q or ioq == 1) else {'sched': 2, 'env': 1}, 'want': want,
                             'monitor_fs': monitor_fs, 'max_execs': 300000})
                if not q and ioq == 100:
                    jobs.append({'name': f'legacy threaded download two faults ioq={ioq} pre={p_}',
                                 'scns': [dict(sc, faults=fs_) for sc in scns[:2]],
                                 'bound': {'sched': 1, 'env': 2}, 'want': want,
                                 'monitor_fs': monitor_fs, 'max_execs': 300000})
    return jobs


def upload_jobs(tier, want, faults=True):
    jobs = []
    sizes = range(0, 8) if tier == 'quick' else range(0, 12)
    ts = (1, 3, 5) if tier == 'quick' else (1, 2, 3, 4, 6)
    cs = (1, 2, 3) if tier == 'quick' else (1, 2, 3, 5)
    scns = [dict(frontend='legacy', op='upload', size=s_, t=t_, c=c_) for s_, t_, c_ in itertools.product(sizes, ts, cs)]
    jobs.append({'name': 'legacy upload sweep', 'scns': scns, 'bound': 0, 'want': want})
    if faults:
        scns = [dict(frontend='legacy', op='upload', size=size, t=t_, c=c_, faults={'sites': ['s3:', 'body:retry']})
                for size, t_, c_ in ((5, 4, 2), (3, 4, 2), (6, 3, 3))]
        jobs.append({'name': 'legacy upload faults', 'scns': scns, 'bound': 1 if tier == 'quick' else 2, 'want': want})
    # the legacy multipart uploader with its real part threads under the scheduler
    scns = [dict(frontend='legacy', op='upload', size=size, t=t_, c=c_, threaded=True, conc=2)
            for size, t_, c_ in ((5, 4, 2), (6, 3, 3))]
    jobs.append({'name': 'legacy threaded upload plain', 'scns': scns, 'bound': {'sched': 2 if tier == 'quick' else 3},
                 'want': want, 'max_execs': 300000})
    if faults:
        jobs.append({'name': 'legacy threaded upload fault',
                     'scns': [dict(sc, faults={'sites': ['s3:', 'body:retry']}) for sc in scns],
                     'bound': {'sched': 1, 'env': 1} if tier == 'quick' else {'sched': 2, 'env': 1}, 'want': want,
                     'max_execs': 300000})
    return jobs


def run_jobs(jobs):
    res = explore.run_jobs(fe_job, jobs)
    tot = explore.Stats()
    viol = []
    for r in res:
        tot.merge(r['stats'])
        viol.extend(r['violations'])
    cov = {'executions': tot.executions, 'states': tot.states, 'transitions': tot.transitions,
           'distinct_outcomes': len(tot.signatures), 'samples': tot.samples[:2], 'caps_hit': tot.caps_hit,
           'executions_with_injected_fault': tot.counters.get('n_injected', 0), 'transfers': tot.executions}
    return cov, viol


def planning_sweep(tier):
    """C14 for the legacy and process-pool front-ends"""
    from .C14 import check_plan
    sizes = range(0, 13) if tier == 'quick' else range(0, 25)
    ts = (1, 2, 3, 5, 8) if tier == 'quick' else range(1, 10)
    cs = (1, 2, 3, 5, 7) if tier == 'quick' else range(1, 10)
    viol = []
    n = 0
    sd = ScratchDir('c14f')
    try:
        for fe, op in (('legacy', 'download'), ('ppool', 'download'), ('legacy', 'upload')):
            for size, t, c in itertools.product(sizes, ts, cs):
                if fe == 'ppool' and size == 0:
                    continue
                scn = dict(frontend=fe, op=op, size=size, t=t, c=c)
                R = run_frontend(scn, (), scratch=sd)
                n += 1
                errs = check_plan(op, size, t, c, R['calls'], multipart_expected=(size >= t))
                if R['outcome'] != 'ok':
                    errs.append((f'C14:{fe}:{op}:failed', repr(R.get('exc'))))
                for sig, msg in errs:
                    viol.append({'sig': sig.replace('C14:', f'C14:{fe}:', 1), 'msg': msg + f' ({fe} {op} size={size} threshold={t} chunk={c})',
                                 'replay': {'kind': 'frontend', 'scn': scn, 'choices': [], 'want': 'C14'}})
                if len(viol) > 5:
                    break
    finally:
        sd.cleanup()
    return {'coverage': {'transfers': n}, 'violations': viol[:5]}
