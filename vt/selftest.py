"""setup-time self-test of the scheduler (fast)."""
import sys
from . import detsched
from .detsched import Sched


def t_deadlock():
    def main():
        s = detsched.active()
        a, b = detsched.Lock(), detsched.Lock()

        def t1():
            with a:
                s.point('x')
                with b:
                    pass

        def t2():
            with b:
                s.point('y')
                with a:
                    pass
        s.spawn(t1, 't1')
        s.spawn(t2, 't2')
    # default schedule: no deadlock; one preemption: deadlock
    s = Sched()
    assert s.run(main) == 'ok', s.outcome
    found = False
    from . import explore

    def run_one(prefix):
        s = Sched(prefix=prefix)
        s.run(main)
        x = explore.Exec()
        x.decisions = [d.as_tuple() for d in s.decisions]
        x.outcome = s.outcome
        x.steps = s.step
        return x
    st = explore.explore(run_one, 2)
    assert st.outcomes.get('deadlock', 0) > 0, st.outcomes
    # determinism: same prefix twice -> same digest
    s1 = Sched(prefix=[1]); s1.run(main)
    s2 = Sched(prefix=[1]); s2.run(main)
    assert s1.digest() == s2.digest()


# ---------------------------------------------------------------------------
# differential test: DetExecutor vs the real ThreadPoolExecutor
# ---------------------------------------------------------------------------

def _executor_script(make_executor, barrier_wait):
    """Runs one script against an executor class; returns observations."""
    obs = {}
    ex = make_executor(1)
    order = []
    futs = [ex.submit(lambda i=i: order.append(i) or i * 2) for i in range(5)]
    obs['results'] = [f.result() for f in futs]
    obs['fifo'] = list(order)
    # exception stored in the future, result() re-raises it
    f = ex.submit(lambda: 1 / 0)
    try:
        f.result()
        obs['exc'] = None
    except ZeroDivisionError:
        obs['exc'] = 'ZeroDivisionError'
    # callback added to a finished future runs immediately, in the caller
    ran = []
    f2 = ex.submit(lambda: 7)
    f2.result()
    f2.add_done_callback(lambda fut: ran.append(fut.result()))
    obs['late_callback_immediate'] = list(ran)
    # an exception in a callback does not propagate
    f3 = ex.submit(lambda: 8)
    f3.result()
    try:
        f3.add_done_callback(lambda fut: 1 / 0)
        obs['cb_exc_propagates'] = False
    except ZeroDivisionError:
        obs['cb_exc_propagates'] = True
    # shutdown(wait=True) returns after queued work ran; submit afterwards raises
    done = []
    for i in range(3):
        ex.submit(lambda i=i: done.append(i))
    ex.shutdown(wait=True)
    obs['after_shutdown'] = list(done)
    try:
        ex.submit(lambda: 0)
        obs['submit_after_shutdown'] = None
    except RuntimeError:
        obs['submit_after_shutdown'] = 'RuntimeError'
    # max_workers respected and reached: tasks block until the submitter releases them
    ex2 = make_executor(2)
    state = {'cur': 0, 'max': 0}
    ev, wait_for_two = barrier_wait()

    def task():
        state['cur'] += 1
        state['max'] = max(state['max'], state['cur'])
        ev.wait()
        state['cur'] -= 1
    fs = [ex2.submit(task) for _ in range(4)]
    wait_for_two(state)
    ev.set()
    for f in fs:
        f.result()
    ex2.shutdown()
    obs['max_concurrency'] = state['max']
    return obs


def t_executor_differential():
    import logging
    logging.getLogger('concurrent.futures').setLevel(logging.CRITICAL)
    import concurrent.futures
    import threading
    import time as _time

    def real_barrier():
        ev = threading.Event()

        def wait_for_two(state):
            t0 = _time.time()
            while state['cur'] < 2 and _time.time() - t0 < 2:
                _time.sleep(0.001)
            _time.sleep(0.02)        # a third task must not start
        return ev, wait_for_two
    real = _executor_script(lambda n: concurrent.futures.ThreadPoolExecutor(max_workers=n), real_barrier)
    out = {}

    def main():
        s = detsched.active()

        def det_barrier():
            ev = detsched.Event()

            def wait_for_two(state):
                s.point('selftest.wait', None, enabled=lambda: state['cur'] >= 2)
            return ev, wait_for_two
        out['det'] = _executor_script(lambda n: detsched.DetExecutor(max_workers=n), det_barrier)
    s = Sched()
    r = s.run(main)
    assert r == 'ok', (r, s.outcome_detail)
    assert out['det'] == real, f'DetExecutor differs from ThreadPoolExecutor:\n det={out["det"]}\nreal={real}'


def main():  # noqa: F811
    t_deadlock()
    t_executor_differential()
    print('selftest ok')


if __name__ == '__main__':
    sys.exit(main())
