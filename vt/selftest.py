"""setup-time self-test of the scheduler (fast)."""
import sys
from . import detsched
from .detsched import Sched


def t_deadlock():
    def main():
        s = detsched.active()
        a, b = detsched.Lock(), detsched.Lock()

        def t1():
            with a:
                s.point('x')
                with b:
                    pass

        def t2():
            with b:
                s.point('y')
                with a:
                    pass
        s.spawn(t1, 't1')
        s.spawn(t2, 't2')
    # default schedule: no deadlock; one preemption: deadlock
    s = Sched()
    assert s.run(main) == 'ok', s.outcome
    found = False
    from . import explore

    def run_one(prefix):
        s = Sched(prefix=prefix)
        s.run(main)
        x = explore.Exec()
        x.decisions = [d.as_tuple() for d in s.decisions]
        x.outcome = s.outcome
        x.steps = s.step
        return x
    st = explore.explore(run_one, 2)
    assert st.outcomes.get('deadlock', 0) > 0, st.outcomes
    # determinism: same prefix twice -> same digest
    s1 = Sched(prefix=[1]); s1.run(main)
    s2 = Sched(prefix=[1]); s2.run(main)
    assert s1.digest() == s2.digest()


def main():
    t_deadlock()
    print('selftest ok')


if __name__ == '__main__':
    sys.exit(main())
