"""Executions must be independent: module-level / class-level mutable containers and mutable
default arguments of the code under test are snapshotted once and restored before every
execution (a change that hoists per-transfer state to such a place would otherwise leak from one
explored execution into the next and show up as replay divergence instead of as a violation
inside one execution)."""
import copy
import types

_SNAP = {}          # module name -> list of (where, container, saved copy)
_CACHES = {}        # module name -> list of (where, wrapper with cache_clear)
LEAKS = {}          # where -> times it had to be restored


def _caches_of(mod):
    """functools.lru_cache / cache wrappers on functions and methods of the module: memoised answers
    survive from one explored execution into the next exactly like a module-level dict"""
    out = []
    for name, obj in list(vars(mod).items()):
        if hasattr(obj, 'cache_clear') and callable(obj):
            out.append((f'{mod.__name__}.{name}', obj))
        if isinstance(obj, type) and obj.__module__ == mod.__name__:
            for an, av in list(vars(obj).items()):
                av = getattr(av, '__func__', av)
                if hasattr(av, 'cache_clear') and callable(av):
                    out.append((f'{mod.__name__}.{name}.{an}', av))
    return out


def _containers_of(mod):
    out = []
    seen = set()

    def add(where, obj):
        if isinstance(obj, (list, dict, set)) and id(obj) not in seen:
            seen.add(id(obj))
            try:
                out.append((where, obj, copy.copy(obj)))
            except Exception:
                pass

    def funcs(where, f):
        f = getattr(f, '__func__', f)
        if isinstance(f, types.FunctionType) and f.__module__ == mod.__name__:
            for i, d in enumerate(f.__defaults__ or ()):
                add(f'{where} default #{i}', d)
            for k, d in (f.__kwdefaults__ or {}).items():
                add(f'{where} kw-default {k}', d)

    for name, obj in list(vars(mod).items()):
        if name.startswith('__'):
            continue
        if isinstance(obj, type) and obj.__module__ == mod.__name__:
            for an, av in list(vars(obj).items()):
                if an.startswith('__') and an.endswith('__'):
                    continue
                add(f'{mod.__name__}.{name}.{an}', av)
                funcs(f'{mod.__name__}.{name}.{an}()', av)
        elif isinstance(obj, types.FunctionType):
            funcs(f'{mod.__name__}.{name}()', obj)
        else:
            add(f'{mod.__name__}.{name}', obj)
    return out


def register(*mods):
    for m in mods:
        if m.__name__ not in _SNAP:
            _SNAP[m.__name__] = _containers_of(m)
            _CACHES[m.__name__] = _caches_of(m)


def restore():
    """put every registered container back to its import-time content (in place)"""
    n = 0
    for lst in _CACHES.values():
        for where, fn in lst:
            try:
                if fn.cache_info().currsize:
                    LEAKS[where] = LEAKS.get(where, 0) + 1
                fn.cache_clear()
            except Exception:
                pass
    for lst in _SNAP.values():
        for where, obj, saved in lst:
            if obj != saved:
                n += 1
                LEAKS[where] = LEAKS.get(where, 0) + 1
                if isinstance(obj, list):
                    obj[:] = saved
                else:
                    obj.clear()
                    obj.update(saved)
    return n
